package iceref

// Exported entry points into the frozen reference copy of blugelabs/ice (pinned
// commit in ../PINNED_COMMIT).  Only this file is not part of the pinned sources.

import (
	"io"

	"github.com/RoaringBitmap/roaring"
	segment "github.com/blugelabs/bluge_segment_api"
)

const (
	XDefaultDocumentChunkSize = defaultDocumentChunkSize
	XLegacyChunkMode          = legacyChunkMode
	XChunkModeV1              = chunkModeV1
	XDefaultChunkMode         = defaultChunkMode
	XFooterLen                = footerLen
	XFieldNotUninverted       = fieldNotUninverted
	XDocDropped               = docDropped
	XFSTValEncodingMask       = fSTValEncodingMask
	XFSTValEncoding1Hit       = fSTValEncoding1Hit
	XTermNotEncoded           = termNotEncoded
	XMaxDocsToScan            = maxDocsToScanSequentially
	XVersion                  = Version
	XZSTDLevel                = ZSTDCompressionLevel
)

func XTermSeparator() byte { return termSeparator }

func XNewWithChunkMode(results []segment.Document, normCalc func(string, int) float32, chunkMode uint32) (segment.Segment, uint64, error) {
	return newWithChunkMode(results, normCalc, chunkMode)
}

func XMergeWriter(segs []segment.Segment, drops []*roaring.Bitmap, w io.Writer, chunkMode uint32) ([][]uint64, uint64, error) {
	bases := make([]*Segment, len(segs))
	for i, s := range segs {
		bases[i] = s.(*Segment)
	}
	return mergeSegmentBasesWriter(bases, drops, w, chunkMode, nil)
}

func XGetChunkSize(chunkMode uint32, cardinality, maxDocs uint64) (uint64, error) {
	return getChunkSize(chunkMode, cardinality, maxDocs)
}

func XPersistFooter(numDocs, stored, fields, dv uint64, chunkMode, crc uint32, w io.Writer) error {
	return persistFooter(&footer{numDocs: numDocs, storedIndexOffset: stored, fieldsIndexOffset: fields,
		docValueOffset: dv, chunkMode: chunkMode, crc: crc}, w)
}

func XParseFooter(data *segment.Data) (numDocs, stored, fields, dv uint64, crc, version, chunkMode uint32, err error) {
	f, err := parseFooter(data)
	if err != nil {
		return 0, 0, 0, 0, 0, 0, 0, err
	}
	return f.numDocs, f.storedIndexOffset, f.fieldsIndexOffset, f.docValueOffset, f.crc, f.version, f.chunkMode, nil
}

func XEncodeFreqHasLocs(freq uint64, hasLocs bool) uint64 { return encodeFreqHasLocs(freq, hasLocs) }
func XDecodeFreqHasLocs(v uint64) (int, bool)             { return decodeFreqHasLocs(v) }
func XFSTValEncode1Hit(docNum, normBits uint64) uint64    { return fSTValEncode1Hit(docNum, normBits) }
func XFSTValDecode1Hit(v uint64) (uint64, uint64)         { return fSTValDecode1Hit(v) }
func XUnder32Bits(x uint64) bool                          { return under32Bits(x) }

// XIntCoderBytes runs the reference chunked int coder over (docNum, vals) pairs.
func XIntCoderBytes(chunkSize, maxDocNum uint64, docNums []uint64, vals [][]uint64, w io.Writer) (int, error) {
	c := newChunkedIntCoder(chunkSize, maxDocNum)
	for i, d := range docNums {
		if err := c.Add(d, vals[i]...); err != nil {
			return 0, err
		}
	}
	c.Close()
	return c.Write(w)
}
