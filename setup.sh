#!/bin/sh
# Build the symbolic engine from the sources in /verif/engine (offline).
set -e
cd "$(dirname "$0")"
export GOFLAGS=-mod=mod GOPROXY=off GOSUMDB=off GOTOOLCHAIN=local
mkdir -p bin work replays evidence
(cd engine && go build -o ../bin/gosym .)
echo "gosym built"
# differential self test of the term simplifier (3 s); a failure must stop every check
(cd engine && go test -count=1 -run TestTermSimplifierDifferential . >/dev/null) || { echo "term simplifier self test FAILED"; rm -f bin/gosym; exit 1; }
echo "term simplifier self test ok"
