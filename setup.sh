#!/bin/sh
# Build the symbolic engine from the sources in /verif/engine (offline).
set -e
cd "$(dirname "$0")"
export GOFLAGS=-mod=mod GOPROXY=off GOSUMDB=off GOTOOLCHAIN=local
mkdir -p bin work replays evidence
(cd engine && go build -o ../bin/gosym .)
echo "gosym built"
