//go:build verif

package ice

import (
	"encoding/json"
	"fmt"
	"os"
	"runtime/debug"
	"strings"
	"testing"
	"time"
)

type vpReplayResult struct {
	Outcome string   `json:"outcome"` // pass | assert | panic | assume | error
	Label   string   `json:"label,omitempty"`
	Msg     string   `json:"msg,omitempty"`
	Reached []string `json:"reached,omitempty"`
	Stack   string   `json:"stack,omitempty"`
}

func vpRunOne(path string) (res vpReplayResult) {
	if err := vpLoadReplay(path); err != nil {
		return vpReplayResult{Outcome: "error", Msg: err.Error()}
	}
	h := vpHarnesses[vpRV.Harness]
	if h == nil {
		return vpReplayResult{Outcome: "error", Msg: "unknown harness " + vpRV.Harness}
	}
	done := make(chan vpReplayResult, 1)
	go func() {
		var r vpReplayResult
		defer func() {
			r.Reached = vpReached
			rec := recover()
			switch e := rec.(type) {
			case nil:
			case vpAssumeFailed:
				r.Outcome = "assume"
			case vpAssertFailed:
				r.Outcome, r.Label = "assert", e.label
			default:
				r.Outcome, r.Msg, r.Stack = "panic", fmt.Sprint(rec), string(debug.Stack())
			}
			done <- r
		}()
		h()
		r.Outcome = "pass"
	}()
	select {
	case r := <-done:
		return r
	case <-time.After(vpHangTimeout):
		// the harness goroutine is stuck (e.g. blocked on a mutex): report and
		// leave it behind
		return vpReplayResult{Outcome: "hang", Msg: "harness did not return within " + vpHangTimeout.String()}
	}
}

var vpHangTimeout = 30 * time.Second

// TestVPReplay re-runs harnesses natively on replay vectors: VP_REPLAY is a
// file with one replay-vector path per line; one JSON result line is printed
// per vector, prefixed with VPRESULT.
func TestVPReplay(t *testing.T) {
	list := os.Getenv("VP_REPLAY")
	if list == "" {
		t.Skip("VP_REPLAY not set")
	}
	var paths []string
	if strings.HasPrefix(list, "@") {
		b, err := os.ReadFile(list[1:])
		if err != nil {
			t.Fatal(err)
		}
		for _, l := range strings.Split(string(b), "\n") {
			if strings.TrimSpace(l) != "" {
				paths = append(paths, strings.TrimSpace(l))
			}
		}
	} else {
		paths = []string{list}
	}
	for _, p := range paths {
		res := vpRunOne(p)
		b, _ := json.Marshal(res)
		fmt.Printf("VPRESULT %s %s\n", p, b)
	}
}
