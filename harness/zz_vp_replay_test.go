//go:build verif

package ice

import (
	"encoding/json"
	"fmt"
	"os"
	"runtime/debug"
	"testing"
)

type vpReplayResult struct {
	Outcome string   `json:"outcome"` // pass | assert | panic | assume | error
	Label   string   `json:"label,omitempty"`
	Msg     string   `json:"msg,omitempty"`
	Reached []string `json:"reached,omitempty"`
	Stack   string   `json:"stack,omitempty"`
}

func vpRunOne(path string) (res vpReplayResult) {
	if err := vpLoadReplay(path); err != nil {
		return vpReplayResult{Outcome: "error", Msg: err.Error()}
	}
	h := vpHarnesses[vpRV.Harness]
	if h == nil {
		return vpReplayResult{Outcome: "error", Msg: "unknown harness " + vpRV.Harness}
	}
	defer func() {
		res.Reached = vpReached
		r := recover()
		switch e := r.(type) {
		case nil:
		case vpAssumeFailed:
			res.Outcome = "assume"
		case vpAssertFailed:
			res.Outcome, res.Label = "assert", e.label
		default:
			res.Outcome, res.Msg, res.Stack = "panic", fmt.Sprint(r), string(debug.Stack())
		}
	}()
	h()
	res.Outcome = "pass"
	return
}

// TestVPReplay re-runs harnesses natively on replay vectors: VP_REPLAY is a
// file with one replay-vector path per line; one JSON result line is printed
// per vector, prefixed with VPRESULT.
func TestVPReplay(t *testing.T) {
	list := os.Getenv("VP_REPLAY")
	if list == "" {
		t.Skip("VP_REPLAY not set")
	}
	for _, p := range vpSplitLines(list) {
		res := vpRunOne(p)
		b, _ := json.Marshal(res)
		fmt.Printf("VPRESULT %s %s\n", p, b)
	}
}

func vpSplitLines(s string) []string {
	var out []string
	cur := ""
	for _, c := range s {
		if c == '\n' || c == ':' {
			if cur != "" {
				out = append(out, cur)
			}
			cur = ""
			continue
		}
		cur += string(c)
	}
	if cur != "" {
		out = append(out, cur)
	}
	return out
}
