//go:build verif

package ice

// Harness runtime.  Under the symbolic engine (gosym) every vp* function below
// is intercepted by name and its body is never executed; natively the bodies
// answer from a replay vector so that a solver assignment can be re-run
// against the real, compiled code (and the real roaring/vellum/zstd/crc32).

import (
	"encoding/json"
	"fmt"
	"io"
	"os"
	"reflect"
	"runtime"
	"unsafe"

	segment "github.com/blugelabs/bluge_segment_api"
)

type vpReplayVec struct {
	Harness string            `json:"harness"`
	Values  map[string]uint64 `json:"values"`
	Choices []uint64          `json:"choices"`
	Tier    int               `json:"tier"` // 0 quick, 1 thorough
}

type vpAssumeFailed struct{}
type vpAssertFailed struct{ label string }

var (
	vpRV        = &vpReplayVec{Values: map[string]uint64{}}
	vpCnt       = map[string]int{}
	vpChoicePos int
	vpReached   []string
	vpNotes     []string
	vpHarnesses = map[string]func(){}
)

func vpRegister(name string, f func()) { vpHarnesses[name] = f }

func vpLoadReplay(path string) error {
	b, err := os.ReadFile(path)
	if err != nil {
		return err
	}
	rv := &vpReplayVec{}
	if err := json.Unmarshal(b, rv); err != nil {
		return err
	}
	if rv.Values == nil {
		rv.Values = map[string]uint64{}
	}
	vpRV = rv
	vpCnt = map[string]int{}
	vpChoicePos = 0
	vpReached = nil
	vpNotes = nil
	return nil
}

func vpNext(name string) uint64 {
	k := vpCnt[name]
	vpCnt[name] = k + 1
	return vpRV.Values[fmt.Sprintf("%s@%d", name, k)]
}

func vpU64(name string) uint64 { return vpNext(name) }
func vpU32(name string) uint32 { return uint32(vpNext(name)) }
func vpU16(name string) uint16 { return uint16(vpNext(name)) }
func vpU8(name string) uint8   { return uint8(vpNext(name)) }
func vpInt(name string) int    { return int(vpNext(name)) }
func vpBool(name string) bool  { return vpNext(name)&1 != 0 }

// vpRange returns an arbitrary value in [lo,hi].
func vpRange(name string, lo, hi uint64) uint64 {
	v := vpNext(name)
	if v < lo || v > hi {
		panic(vpAssumeFailed{})
	}
	return v
}

// vpChoice returns an arbitrary value in 0..n-1; the engine explores all of them.
func vpChoice(name string, n int) int {
	var v uint64
	if vpChoicePos < len(vpRV.Choices) {
		v = vpRV.Choices[vpChoicePos]
	}
	vpChoicePos++
	if int(v) >= n {
		panic(vpAssumeFailed{})
	}
	return int(v)
}

func vpAssume(c bool) {
	if !c {
		panic(vpAssumeFailed{})
	}
}

func vpAssert(c bool, label string) {
	if !c {
		panic(vpAssertFailed{label})
	}
}

func vpReach(label string) { vpReached = append(vpReached, label) }
func vpNote(s string)      { vpNotes = append(vpNotes, s) }

// vpThorough reports whether the thorough-tier bounds apply.
func vpThorough() bool { return vpRV.Tier > 0 }

// vpSymbolic reports whether the harness runs under the symbolic engine.
func vpSymbolic() bool { return false }

// Model-only knobs (no effect natively; the real library decides).
func vpPoolReuse(on bool) {}

// vpPoolFlush empties every sync.Pool (two GC cycles drop the primary and the
// victim cache): the next Get calls New.
func vpPoolFlush() {
	runtime.GC()
	runtime.GC()
}
func vpMapReverse(on bool) {}
func vpCancelAt(poll int)  { vpCancelPoll = poll }
func vpPolls() int         { return 0 }

var vpCancelPoll = -1

func vpWriteSetBegin(roots []interface{}) {}
func vpWriteSetEnd() []string             { return nil }

// vpDataFromReaderAt builds a file-backed segment.Data over an arbitrary
// io.ReaderAt (segment.NewDataFile only accepts *os.File).  Natively the
// unexported fields are set through reflect/unsafe (test side only); the
// engine constructs the same value directly.
func vpDataFromReaderAt(r io.ReaderAt, sz int) *segment.Data {
	d := &segment.Data{}
	v := reflect.ValueOf(d).Elem()
	rf := v.FieldByName("r")
	reflect.NewAt(rf.Type(), unsafe.Pointer(rf.UnsafeAddr())).Elem().Set(reflect.ValueOf(&r).Elem())
	sf := v.FieldByName("sz")
	reflect.NewAt(sf.Type(), unsafe.Pointer(sf.UnsafeAddr())).Elem().SetInt(int64(sz))
	return d
}
