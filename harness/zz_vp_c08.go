//go:build verif

package ice

import (
	"sort"
	"strings"

	"github.com/RoaringBitmap/roaring"
	segment "github.com/blugelabs/bluge_segment_api"
)

func init() {
	vpRegister("vpH_C08_dict", vpH_C08_dict)
}

// vpPrefixAut accepts exactly the keys that start with prefix ("" = everything).
type vpPrefixAut struct{ prefix string }

func (a *vpPrefixAut) Start() int { return 0 }
func (a *vpPrefixAut) IsMatch(s int) bool {
	return s == len(a.prefix)
}
func (a *vpPrefixAut) CanMatch(s int) bool        { return s >= 0 }
func (a *vpPrefixAut) WillAlwaysMatch(s int) bool { return s == len(a.prefix) }
func (a *vpPrefixAut) Accept(s int, b byte) int {
	if s < 0 {
		return -1
	}
	if s == len(a.prefix) {
		return s
	}
	if a.prefix[s] == b {
		return s + 1
	}
	return -1
}

// document patterns of a term over 3 documents
var vpTermPatterns = [][]int{nil, {0}, {0, 1}, {2}, {1, 2}}

// C08: dictionaries of built and merged segments: ranges, automata, counts, Contains, unknown fields/terms.
func vpH_C08_dict() {
	names := []string{"a", "b", "c"}
	if vpThorough() {
		names = []string{"a", "b", "c", "x\x00"} // a fourth term that sorts between "x" and "xa"
	}
	docTerms := make([][]*vpTerm, 3)
	add := func(d int, t string, freq int) {
		docTerms[d] = append(docTerms[d], &vpTerm{term: []byte(t), freq: freq})
	}
	for _, t := range names {
		p := vpTermPatterns[vpChoice("pattern", len(vpTermPatterns))]
		for _, d := range p {
			f := 1
			if len(p) == 1 && d == 2 {
				f = 2 // a single-document term that is not 1-hit eligible
			}
			add(d, t, f)
		}
	}
	// fixed terms: the empty term, a term and its extension (prefix automaton / range bounds)
	add(1, "", 1)
	add(0, "x", 1)
	add(1, "x", 1)
	add(2, "xa", 1)
	add(2, "y\xfe", 3)
	var docs []*vpDoc
	for d := 0; d < 3; d++ {
		docs = append(docs, &vpDoc{fields: []*vpField{{name: "f", length: len(docTerms[d]), terms: docTerms[d]}}})
	}
	seg := vpBuild(docs, 1025)
	held := docs
	switch vpChoice("variant", 3) {
	case 0:
		vpReach("C08 built")
	case 1:
		mb, _ := vpMergeBytes([]*Segment{seg}, []*roaring.Bitmap{nil}, 1025)
		seg = vpLoad(mb)
		vpNote("feat:merged")
		vpReach("C08 merged")
	case 2:
		dr := roaring.New()
		dr.Add(1)
		mb, _ := vpMergeBytes([]*Segment{seg}, []*roaring.Bitmap{dr}, 1025)
		seg = vpLoad(mb)
		held = []*vpDoc{docs[0], docs[2]}
		vpNote("feat:merged")
		vpReach("C08 merged with deletion")
	}
	exp := vpBuildExpect(held, []string{"f"})

	// unknown field: empty dictionary, no error, no panic
	ud, err := seg.Dictionary("nofield")
	vpMust(err, "Dictionary(unknown)")
	vpAssert(ud != nil, "Dictionary(unknown) is non-nil")
	ue, err := ud.Iterator(nil, nil, nil).Next()
	vpAssert(err == nil && ue == nil, "unknown field has an empty dictionary")
	upl, err := ud.PostingsList([]byte("x"), nil, nil)
	vpAssert(err == nil && upl != nil && upl.Count() == 0, "unknown field has empty postings lists")
	ok, err := ud.Contains([]byte("x"))
	vpAssert(err == nil && !ok, "unknown field contains nothing")

	d, err := seg.Dictionary("f")
	vpMust(err, "Dictionary")
	type rng struct{ start, end []byte }
	ranges := []rng{{nil, nil}, {[]byte("b"), nil}, {nil, []byte("c")}, {[]byte("a"), []byte("xa")}, {[]byte("b"), []byte("b")}, {[]byte(""), []byte("a")}}
	r := ranges[vpChoice("range", len(ranges))]
	var aut segment.Automaton
	prefix := ""
	switch vpChoice("automaton", 3) {
	case 1:
		aut = &vpPrefixAut{"x"}
		prefix = "x"
	case 2:
		aut = &vpPrefixAut{""}
	}
	var want []string
	for _, t := range exp.terms["f"] {
		if r.start != nil && t < string(r.start) {
			continue
		}
		if r.end != nil && t >= string(r.end) {
			continue
		}
		if !strings.HasPrefix(t, prefix) {
			continue
		}
		want = append(want, t)
	}
	sort.Strings(want)
	it := d.Iterator(aut, r.start, r.end)
	var got []vpObsDictEntry
	for {
		e, err := it.Next()
		vpMust(err, "DictionaryIterator.Next")
		if e == nil {
			break
		}
		got = append(got, vpObsDictEntry{e.Term(), e.Count()})
		if len(got) > 32 {
			vpAssert(false, "dictionary iterator does not terminate")
			break
		}
	}
	vpAssert(len(got) == len(want), "number of dictionary entries in range")
	if len(got) == len(want) {
		for i := range got {
			vpAssert(got[i].term == want[i], "dictionary terms in ascending byte order")
			vpAssert(got[i].count == uint64(len(exp.post["f"][want[i]])), "dictionary entry count")
		}
	}
	// Contains / PostingsList agree with the model for present and absent terms
	for _, t := range []string{"", "a", "b", "c", "x", "x\x00", "xa", "y\xfe", "zz"} {
		n := uint64(len(exp.post["f"][t]))
		ok, err := d.Contains([]byte(t))
		vpAssert(err == nil && ok == (n > 0), "Contains agrees with the model")
		pl, err := d.PostingsList([]byte(t), nil, nil)
		vpAssert(err == nil && pl != nil && pl.Count() == n, "PostingsList.Count agrees with the model")
	}
	vpReach("C08 dict end")
}
