//go:build verif

package ice

import (
	"bytes"
	"sort"
	"strings"

	"github.com/RoaringBitmap/roaring"
	segment "github.com/blugelabs/bluge_segment_api"
)

func init() {
	vpRegister("vpH_C08_dict", vpH_C08_dict)
}

// vpPrefixAut accepts exactly the keys that start with prefix ("" = everything).
type vpPrefixAut struct{ prefix string }

func (a *vpPrefixAut) Start() int { return 0 }
func (a *vpPrefixAut) IsMatch(s int) bool {
	return s == len(a.prefix)
}
func (a *vpPrefixAut) CanMatch(s int) bool        { return s >= 0 }
func (a *vpPrefixAut) WillAlwaysMatch(s int) bool { return s == len(a.prefix) }
func (a *vpPrefixAut) Accept(s int, b byte) int {
	if s < 0 {
		return -1
	}
	if s == len(a.prefix) {
		return s
	}
	if a.prefix[s] == b {
		return s + 1
	}
	return -1
}

// document patterns of a term over 3 documents
var vpTermPatterns = [][]int{nil, {0}, {0, 1}, {2}, {1, 2}}

// C08: dictionaries of built and merged segments: ranges, automata, counts, Contains, unknown fields/terms.
func vpLongTermOf(last byte) string {
	b := make([]byte, 300)
	for i := range b {
		b[i] = 'L'
	}
	b[299] = last
	return string(b)
}

func vpH_C08_dict() {
	names := []string{"a", "b", "c"}
	if vpThorough() {
		names = []string{"a", "b", "c", "x\x00"} // a fourth term that sorts between "x" and "xa"
	}
	docTerms := make([][]*vpTerm, 3)
	add := func(d int, t string, freq int) {
		docTerms[d] = append(docTerms[d], &vpTerm{term: []byte(t), freq: freq})
	}
	for _, t := range names {
		p := vpTermPatterns[vpChoice("pattern", len(vpTermPatterns))]
		for _, d := range p {
			f := 1
			if len(p) == 1 && d == 2 {
				f = 2 // a single-document term that is not 1-hit eligible
			}
			add(d, t, f)
		}
	}
	// fixed terms: the empty term, a term and its extension (prefix automaton / range bounds)
	add(1, "", 1)
	variant := vpChoice("variant", 6)
	if (variant == 3 || variant == 4) && vpChoice("empty-term-in-two-documents", 2) == 1 {
		add(2, "", 2) // the empty term then exists in both inputs of the two-segment merges
	}
	add(0, "x", 1)
	add(1, "x", 1)
	add(2, "xa", 1)
	add(2, "y\xfe", 3)
	// two terms of 300 bytes that differ in their last byte only (longer than any
	// fixed-size term buffer, sharing a 299-byte prefix)
	add(0, vpLongTermOf('a'), 1)
	add(2, vpLongTermOf('b'), 2)
	var docs []*vpDoc
	for d := 0; d < 3; d++ {
		docs = append(docs, &vpDoc{fields: []*vpField{{name: "f", length: len(docTerms[d]), terms: docTerms[d]}}})
	}
	seg := vpBuild(docs, 1025)
	held := docs
	switch variant {
	case 0:
		vpReach("C08 built")
	case 5:
		// the first input is a second-generation segment that still lists field f
		// but lost every document that had it (empty dictionary); the second
		// input has f, and the two deletion sets differ
		e := []*vpDoc{{fields: []*vpField{{name: "f", length: 1, terms: []*vpTerm{{term: []byte("one"), freq: 1}}}}},
			{fields: []*vpField{{name: "g", length: 1, terms: []*vpTerm{{term: []byte("z"), freq: 1}}}}}}
		d0 := roaring.New()
		d0.Add(0)
		gb, _ := vpMergeBytes([]*Segment{vpBuild(e, 1025)}, []*roaring.Bitmap{d0}, 1025)
		dr := roaring.New()
		dr.Add(1)
		mb, _ := vpMergeBytes([]*Segment{vpLoad(gb), seg}, []*roaring.Bitmap{nil, dr}, 1025)
		seg = vpLoad(mb)
		held = []*vpDoc{e[1], docs[0], docs[2]}
		vpNote("feat:merged")
		vpReach("C08 merged after an input whose field lost all its documents")
	case 3, 4:
		// the documents split over two segments that are merged: terms present in
		// one input only (among them the empty term), in the first or in the second
		cut := variant - 2
		s1, s2 := vpBuild(docs[:cut], 1025), vpBuild(docs[cut:], 1025)
		var d2 *roaring.Bitmap
		if vpChoice("drop-in-later-input", 2) == 1 {
			// the first document of the later input is deleted: terms it shares with
			// the earlier input stay live there only
			d2 = roaring.New()
			d2.Add(0)
			held = append(append([]*vpDoc(nil), docs[:cut]...), docs[cut+1:]...)
		}
		mb, _ := vpMergeBytes([]*Segment{s1, s2}, []*roaring.Bitmap{nil, d2}, 1025)
		seg = vpLoad(mb)
		vpNote("feat:merged")
		vpReach("C08 merged from two segments")
	case 1:
		mb, _ := vpMergeBytes([]*Segment{seg}, []*roaring.Bitmap{nil}, 1025)
		seg = vpLoad(mb)
		vpNote("feat:merged")
		vpReach("C08 merged")
	case 2:
		dr := roaring.New()
		dr.Add(1)
		mb, _ := vpMergeBytes([]*Segment{seg}, []*roaring.Bitmap{dr}, 1025)
		seg = vpLoad(mb)
		held = []*vpDoc{docs[0], docs[2]}
		vpNote("feat:merged")
		vpReach("C08 merged with deletion")
	}
	exp := vpBuildExpect(held, []string{"f"})

	// unknown field: empty dictionary, no error, no panic
	ud, err := seg.Dictionary("nofield")
	vpMust(err, "Dictionary(unknown)")
	vpAssert(ud != nil, "Dictionary(unknown) is non-nil")
	ue, err := ud.Iterator(nil, nil, nil).Next()
	vpAssert(err == nil && ue == nil, "unknown field has an empty dictionary")
	upl, err := ud.PostingsList([]byte("x"), nil, nil)
	vpAssert(err == nil && upl != nil && upl.Count() == 0, "unknown field has empty postings lists")
	ok, err := ud.Contains([]byte("x"))
	vpAssert(err == nil && !ok, "unknown field contains nothing")

	d, err := seg.Dictionary("f")
	vpMust(err, "Dictionary")
	type rng struct{ start, end []byte }
	ranges := []rng{{nil, nil}, {[]byte("b"), nil}, {nil, []byte("c")}, {[]byte("a"), []byte("xa")}, {[]byte("b"), []byte("b")}, {[]byte(""), []byte("a")}}
	r := ranges[vpChoice("range", len(ranges))]
	var aut segment.Automaton
	prefix := ""
	switch vpChoice("automaton", 3) {
	case 1:
		aut = &vpPrefixAut{"x"}
		prefix = "x"
	case 2:
		aut = &vpPrefixAut{""}
	}
	var want []string
	for _, t := range exp.terms["f"] {
		if r.start != nil && t < string(r.start) {
			continue
		}
		if r.end != nil && t >= string(r.end) {
			continue
		}
		if !strings.HasPrefix(t, prefix) {
			continue
		}
		want = append(want, t)
	}
	sort.Strings(want)
	it := d.Iterator(aut, r.start, r.end)
	var got []vpObsDictEntry
	for {
		e, err := it.Next()
		vpMust(err, "DictionaryIterator.Next")
		if e == nil {
			break
		}
		got = append(got, vpObsDictEntry{e.Term(), e.Count()})
		if len(got) > 32 {
			vpAssert(false, "dictionary iterator does not terminate")
			break
		}
	}
	vpAssert(len(got) == len(want), "number of dictionary entries in range")
	if len(got) == len(want) {
		for i := range got {
			vpAssert(got[i].term == want[i], "dictionary terms in ascending byte order")
			vpAssert(got[i].count == uint64(len(exp.post["f"][want[i]])), "dictionary entry count")
		}
	}
	// Contains / PostingsList agree with the model for present and absent terms
	for _, t := range []string{"", "a", "b", "c", "x", "x\x00", "xa", "y\xfe", "zz"} {
		n := uint64(len(exp.post["f"][t]))
		ok, err := d.Contains([]byte(t))
		vpAssert(err == nil && ok == (n > 0), "Contains agrees with the model")
		pl, err := d.PostingsList([]byte(t), nil, nil)
		vpAssert(err == nil && pl != nil && pl.Count() == n, "PostingsList.Count agrees with the model")
	}
	// two live iterators of the same Dictionary used alternately: a full
	// enumeration is started, the range/automaton enumeration runs in between,
	// then the first one is finished
	{
		all := append([]string(nil), exp.terms["f"]...)
		sort.Strings(all)
		full := d.Iterator(nil, nil, nil)
		var seen []string
		if e, err := full.Next(); err == nil && e != nil {
			seen = append(seen, e.Term())
		}
		other := d.Iterator(aut, r.start, r.end)
		n := 0
		for {
			e, err := other.Next()
			vpMust(err, "DictionaryIterator.Next")
			if e == nil || n > 32 {
				break
			}
			n++
		}
		vpAssert(n == len(want), "a second live iterator of the dictionary enumerates its own range")
		for {
			e, err := full.Next()
			vpMust(err, "DictionaryIterator.Next")
			if e == nil || len(seen) > 32 {
				break
			}
			seen = append(seen, e.Term())
		}
		vpAssert(len(seen) == len(all), "the first live iterator still enumerates every term")
		if len(seen) == len(all) {
			for i := range seen {
				vpAssert(seen[i] == all[i], "the first live iterator still enumerates every term in order")
			}
		}
	}
	// unknown field / absent term looked up with a recycled list (one that served
	// a general term): still an empty list with an empty iterator
	for _, probe := range []segment.Dictionary{ud, d} {
		pre, err := d.PostingsList([]byte("x"), nil, nil)
		vpMust(err, "PostingsList")
		rpl, err := probe.PostingsList([]byte("absent-term"), nil, pre)
		vpAssert(err == nil && rpl != nil && rpl.Count() == 0, "recycled list of an unknown field / absent term is empty")
		if err == nil && rpl != nil {
			rit, err := rpl.Iterator(true, true, true, nil)
			vpAssert(err == nil && rit != nil, "recycled list of an unknown field / absent term has an iterator")
			if err == nil && rit != nil {
				p, err := rit.Next()
				vpAssert(err == nil && p == nil, "recycled list of an unknown field / absent term has no postings")
			}
		}
	}
	vpReach("C08 dict end")
}

func init() { vpRegister("vpH_C08_symkeys", vpH_C08_symkeys) }

// vpSymKey returns nil (k=0) or a key of k-1 symbolic bytes.
func vpSymKey(tag string, maxLen int) []byte {
	k := vpChoice(tag+"-len", maxLen+2)
	if k == 0 {
		return nil
	}
	b := make([]byte, k-1)
	for i := range b {
		b[i] = vpU8(tag)
	}
	return b
}

// C08 with symbolic keys: for EVERY lookup key of up to 2 bytes and EVERY
// range [start,end) with bounds of up to 2 bytes (start <= end), optionally a
// prefix automaton, the dictionary of a built / merged / merged-with-deletion
// segment agrees with the set of live terms.
func vpH_C08_symkeys() {
	docTerms := make([][]*vpTerm, 3)
	add := func(d int, t string, freq int) {
		docTerms[d] = append(docTerms[d], &vpTerm{term: []byte(t), freq: freq})
	}
	add(1, "", 1)
	add(0, "a", 1)
	add(2, "a", 1)
	add(0, "x", 1)
	add(1, "x", 1)
	add(2, "xa", 1)
	add(1, "x\x00", 2)
	add(2, "y\xfe", 3)
	var docs []*vpDoc
	for d := 0; d < 3; d++ {
		docs = append(docs, &vpDoc{fields: []*vpField{{name: "f", length: len(docTerms[d]), terms: docTerms[d]}}})
	}
	seg := vpBuild(docs, 1025)
	held := docs
	variant := vpChoice("variant", 5)
	switch variant {
	case 3, 4:
		// merged from two segments: terms (among them the empty term) present in one input only
		cut := variant - 2
		s1, s2 := vpBuild(docs[:cut], 1025), vpBuild(docs[cut:], 1025)
		mb, _ := vpMergeBytes([]*Segment{s1, s2}, []*roaring.Bitmap{nil, nil}, 1025)
		seg = vpLoad(mb)
		vpNote("feat:merged")
	case 1:
		mb, _ := vpMergeBytes([]*Segment{seg}, []*roaring.Bitmap{nil}, 1025)
		seg = vpLoad(mb)
		vpNote("feat:merged")
	case 2:
		dr := roaring.New()
		dr.Add(1)
		mb, _ := vpMergeBytes([]*Segment{seg}, []*roaring.Bitmap{dr}, 1025)
		seg = vpLoad(mb)
		held = []*vpDoc{docs[0], docs[2]}
		vpNote("feat:merged")
	}
	exp := vpBuildExpect(held, []string{"f"})
	terms := append([]string(nil), exp.terms["f"]...)
	sort.Strings(terms)
	d, err := seg.Dictionary("f")
	vpMust(err, "Dictionary")

	maxKey := 2
	if vpThorough() {
		maxKey = 4
	}
	if vpChoice("query", 2) == 0 {
		// point lookups with a symbolic key
		key := vpSymKey("key", maxKey)
		var n uint64
		for _, t := range terms {
			if bytes.Equal(key, []byte(t)) {
				n = uint64(len(exp.post["f"][t]))
			}
		}
		ok, err := d.Contains(key)
		vpAssert(err == nil && ok == (n > 0), "Contains agrees with the model for every key")
		pl, err := d.PostingsList(key, nil, nil)
		vpAssert(err == nil && pl != nil && pl.Count() == n, "PostingsList.Count agrees with the model for every key")
		vpReach("C08 symbolic lookup")
		return
	}
	start := vpSymKey("start", maxKey)
	end := vpSymKey("end", maxKey)
	if start != nil && end != nil {
		vpAssume(bytes.Compare(start, end) <= 0)
	}
	var aut segment.Automaton
	prefix := ""
	if vpChoice("automaton", 2) == 1 {
		aut = &vpPrefixAut{"x"}
		prefix = "x"
	}
	var want []string
	for _, t := range terms {
		if start != nil && bytes.Compare([]byte(t), start) < 0 {
			continue
		}
		if end != nil && bytes.Compare([]byte(t), end) >= 0 {
			continue
		}
		if !strings.HasPrefix(t, prefix) {
			continue
		}
		want = append(want, t)
	}
	it := d.Iterator(aut, start, end)
	var got []vpObsDictEntry
	for {
		e, err := it.Next()
		vpMust(err, "DictionaryIterator.Next")
		if e == nil {
			break
		}
		got = append(got, vpObsDictEntry{e.Term(), e.Count()})
		if len(got) > 32 {
			vpAssert(false, "dictionary iterator does not terminate")
			break
		}
	}
	vpAssert(len(got) == len(want), "number of dictionary entries in every range")
	if len(got) == len(want) {
		for i := range got {
			vpAssert(got[i].term == want[i], "dictionary terms of every range in ascending byte order")
			vpAssert(got[i].count == uint64(len(exp.post["f"][want[i]])), "dictionary entry count in every range")
		}
	}
	vpReach("C08 symbolic range")
}
