//go:build verif

package ice

func init() {
	vpRegister("vpH_T_concrete1", vpH_T_concrete1)
}

func vpT(term string, freq int, locs ...*vpLoc) *vpTerm {
	return &vpTerm{term: []byte(term), freq: freq, locs: locs}
}

func vpF(name string, store, dv bool, value string, terms ...*vpTerm) *vpField {
	return &vpField{name: name, terms: terms, value: []byte(value), store: store, dv: dv}
}

// vpSampleDocs is a fixed, feature-rich batch used by the engine-vs-native self check.
func vpSampleDocs() []*vpDoc {
	d0 := &vpDoc{fields: []*vpField{
		vpF("_id", true, false, "a", vpT("a", 1)),
		vpF("name", true, true, "wow", vpT("wow", 1, &vpLoc{"", 1, 0, 3})),
		vpF("desc", false, true, "", vpT("some", 1, &vpLoc{"", 1, 0, 4}), vpT("thing", 2, &vpLoc{"", 2, 5, 10}, &vpLoc{"", 3, 11, 16})),
		vpF("tag", true, false, "cold", vpT("cold", 1)),
		vpF("tag", true, false, "dark", vpT("dark", 1), vpT("", 3)),
		vpF("_all", false, false, "", vpT("wow", 1, &vpLoc{"name", 1, 0, 3}), vpT("y\xfe", 1)),
	}}
	d1 := &vpDoc{fields: []*vpField{
		vpF("_id", true, false, "b", vpT("b", 1)),
		vpF("name", true, true, "who", vpT("who", 1, &vpLoc{"", 1, 0, 3})),
		vpF("desc", false, true, "", vpT("thing", 1, &vpLoc{"", 1, 0, 5})),
	}}
	d2 := &vpDoc{fields: []*vpField{
		vpF("_id", true, false, "c", vpT("c", 1)),
	}}
	ds := []*vpDoc{d0, d1, d2}
	vpSetLengths(ds)
	return ds
}

func vpH_T_concrete1() {
	docs := vpSampleDocs()
	for _, mode := range []uint32{1025, 1, 2} {
		seg := vpBuild(docs, mode)
		exp := vpBuildExpect(docs, nil)
		obs := vpObserve(seg, []string{"nofield"}, []string{"zzz"})
		vpMatchesModel("built", obs, exp, vpMatchOpts{})
		l := vpLoad(vpPersist(seg))
		vpSameObs("loaded", obs, vpObserve(l, []string{"nofield"}, []string{"zzz"}))
	}
	vpReach("concrete1 end")
}

func init() {
	vpRegister("vpH_C01_build", vpH_C01_build)
	vpRegister("vpH_C01_wide", vpH_C01_wide)
	vpRegister("vpH_C01_later", vpH_C01_later)
	vpRegister("vpH_C01_chunks", vpH_C01_chunks)
}

func vpC01Check(g *vpGen, docs []*vpDoc, mode uint32) {
	g.done()
	seg := vpBuild(docs, mode)
	exp := vpBuildExpect(docs, nil)
	obs := vpObserve(seg, []string{"zz"}, []string{"q"})
	vpMatchesModel("built", obs, exp, vpMatchOpts{})
}

// C01: every batch of <= 2 (thorough: 3) documents over the templates, every
// chunk mode of vpModes, all numeric values symbolic in their small ranges.
func vpH_C01_build() {
	g := vpNewGen(0)
	max := 2
	if vpThorough() {
		max = 3
	}
	docs := g.batch("b", 0, max, vpAllTemplates())
	mode := g.mode("b")
	vpC01Check(g, docs, mode)
	vpReach("C01 build end")
}

// C01 with one wide value at a time (full-width frequencies / positions /
// lengths): 1 or 2 documents.
func vpH_C01_wide() {
	g := vpNewGen(12)
	vpAssume(g.wide >= 0)
	max := 1
	if vpThorough() {
		max = 2
	}
	docs := g.batch("b", 1, max, []int{2, 3, 4, 5, 7, 8})
	mode := g.mode("b")
	vpC01Check(g, docs, mode)
	vpReach("C01 wide end")
}

// C01 for a segment that stays in memory while the (pooled) builder goes on to
// build other batches with other field names: the first segment still
// returns exactly what its batch implies.
func vpH_C01_later() {
	g := vpNewGen(0)
	docs := g.batch("b", 1, 2, []int{2, 5, 7, 8})
	g.done()
	vpPoolReuse(true)
	vpPoolFlush()
	seg := vpBuild(docs, 1025)
	later := [][]*vpDoc{
		{{fields: []*vpField{{name: "_id", store: true, value: []byte("q"), length: 1, terms: []*vpTerm{{term: []byte("q"), freq: 1}}},
			{name: "aa", store: true, value: []byte("v"), length: 1, terms: []*vpTerm{{term: []byte("k"), freq: 1}}},
			{name: "zz", length: 1, terms: []*vpTerm{{term: []byte("k"), freq: 1, locs: []*vpLoc{{pos: 1, start: 2, end: 3}}}}}}}},
		{{fields: []*vpField{{name: "aa", dv: true, length: 1, terms: []*vpTerm{{term: []byte("k"), freq: 1}}}}}},
		{},
	}[vpChoice("later-batch", 3)]
	for n := 1 + vpChoice("later-builds", 2); n > 0; n-- {
		vpBuild(later, 1)
	}
	vpPoolReuse(false)
	exp := vpBuildExpect(docs, nil)
	obs := vpObserve(seg, []string{"zz"}, []string{"q"})
	vpMatchesModel("built, after later builds", obs, exp, vpMatchOpts{})
	vpReach("C01 later end")
}

// C01 with several chunks per postings list: 3..4 documents under the fixed
// chunk sizes 1 and 2, so that terms start, end and skip chunks (a term in the
// first document only followed by a term in the first and the last, ...).
func vpH_C01_chunks() {
	g := vpNewGen(0)
	max := 3
	if vpThorough() {
		max = 4
	}
	docs := g.batch("b", 3, max, []int{1, 2, 3, 9})
	mode := []uint32{1, 2}[vpChoice("mode", 2)]
	vpC01Check(g, docs, mode)
	vpReach("C01 chunks end")
}
