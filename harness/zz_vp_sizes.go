//go:build verif

package ice

import (
	"bytes"

	"github.com/RoaringBitmap/roaring"
)

func init() {
	vpRegister("vpH_C04_bigstats", vpH_C04_bigstats)
	vpRegister("vpH_C06_bigvalue", vpH_C06_bigvalue)
}

// C04 (sizes): counters and lengths in the fields section that need multi-byte
// varints: a field carried by >= 128 documents, a field name of 200 bytes, a
// token count >= 16384; the loaded segment (memory and file backed) must report
// the statistics and dictionaries of the built one.
func vpH_C04_bigstats() {
	n := []int{130, 300}[vpChoice("docs", 2)]
	// a field name of 200 bytes, or of 57..64 bytes (a field record around 64 bytes)
	long := string(bytes.Repeat([]byte("n"), []int{200, 57, 58, 59, 60, 61, 62, 63, 64}[vpChoice("name-length", 9)]))
	var docs []*vpDoc
	for d := 0; d < n; d++ {
		doc := &vpDoc{fields: []*vpField{
			{name: "a", length: 130, terms: []*vpTerm{{term: []byte("x"), freq: 130}}},
		}}
		if d%2 == 0 {
			doc.fields = append(doc.fields, &vpField{name: long, length: 1, terms: []*vpTerm{{term: []byte("y"), freq: 1}}})
		}
		if d == 3 {
			doc.fields = append(doc.fields, &vpField{name: "zlast", length: int(vpRange("lastlen", 0, 1<<20)), terms: []*vpTerm{{term: []byte("z"), freq: 2}}})
		}
		docs = append(docs, doc)
	}
	// the adaptive mode, or a small fixed chunk size (many chunks per postings list)
	mode := []uint32{1025, 2}[vpChoice("mode", 2)]
	seg := vpBuild(docs, mode)
	if vpChoice("merged", 2) == 1 {
		mb, _ := vpMergeBytes([]*Segment{seg}, []*roaring.Bitmap{nil}, mode)
		seg = vpLoad(mb)
	}
	b := vpPersist(seg)
	l := vpLoad(b)
	lf, _ := vpLoadFile(b)
	// the sparse term of the last field, read with frequencies through both loaded forms
	for _, other := range []*Segment{l, lf} {
		d, err := other.Dictionary("zlast")
		vpMust(err, "Dictionary(last field)")
		pl, err := d.PostingsList([]byte("z"), nil, nil)
		vpMust(err, "PostingsList")
		it, err := pl.Iterator(true, true, true, nil)
		vpMust(err, "Iterator")
		p, err := it.Next()
		vpMust(err, "Next")
		vpAssert(p != nil && p.Number() == 3 && p.Frequency() == 2, "posting of the sparse term of the last field")
	}
	for _, f := range []string{"_id", "a", long, "zlast", "nofield"} {
		s0, err := seg.CollectionStats(f)
		vpMust(err, "CollectionStats")
		for _, other := range []*Segment{l, lf} {
			s1, err := other.CollectionStats(f)
			vpMust(err, "CollectionStats (loaded)")
			vpAssert(s1.TotalDocumentCount() == s0.TotalDocumentCount(), "loaded TotalDocumentCount")
			vpAssert(s1.DocumentCount() == s0.DocumentCount(), "loaded DocumentCount")
			vpAssert(s1.SumTotalTermFrequency() == s0.SumTotalTermFrequency(), "loaded SumTotalTermFrequency")
		}
	}
	st, _ := l.CollectionStats("a")
	vpAssert(st.DocumentCount() == uint64(n), "DocumentCount of a field in every document")
	vpAssert(vpStrsEq(l.Fields(), seg.Fields()) && vpStrsEq(lf.Fields(), seg.Fields()), "loaded field list")
	for _, other := range []*Segment{l, lf} {
		d, err := other.Dictionary(long)
		vpMust(err, "Dictionary(long field name)")
		pl, err := d.PostingsList([]byte("y"), nil, nil)
		vpMust(err, "PostingsList")
		vpAssert(pl.Count() == uint64((n+1)/2), "postings of the long-named field")
	}
	vpReach("C04 bigstats end")
}

// C06 (sizes): stored values and records whose lengths cross the varint
// boundaries (>= 128, >= 16384 bytes), followed by small documents in the same
// block; built, loaded, merged by block copy and by re-encode.
func vpH_C06_bigvalue() {
	big := []int{127, 128, 300, 16383, 16384, 17000}[vpChoice("size", 6)]
	val := bytes.Repeat([]byte{0xAB}, big)
	val[0], val[big-1] = vpU8("first"), vpU8("last")
	pos := vpChoice("position", 2) // the large record is first, or in the middle
	mkSmall := func(k int) *vpDoc {
		return &vpDoc{fields: []*vpField{{name: "s", store: true, value: []byte{byte('a' + k)}, length: 1, terms: []*vpTerm{{term: []byte("t"), freq: 1}}}}}
	}
	bigDoc := &vpDoc{fields: []*vpField{
		{name: "s", store: true, value: val, length: 1, terms: []*vpTerm{{term: []byte("t"), freq: 1}}},
		{name: "s", store: true, value: []byte("tail"), length: 1, terms: []*vpTerm{{term: []byte("u"), freq: 1}}},
	}}
	docs := []*vpDoc{mkSmall(0), mkSmall(1), mkSmall(2)}
	if pos == 0 {
		docs = append([]*vpDoc{bigDoc}, docs...)
	} else {
		docs = []*vpDoc{mkSmall(0), bigDoc, mkSmall(1), mkSmall(2)}
	}
	g := vpNewGen(0)
	seg, held := vpStoredVariant(g, docs, 1025)
	exp := vpBuildExpect(held, vpFieldNames(held))
	for n := range held {
		vpVisitCheck("big value", seg, uint64(n), exp.stored[n], -1)
	}
	vpReach("C06 bigvalue end")
}
