//go:build verif

package ice

import (
	"github.com/RoaringBitmap/roaring"
	segment "github.com/blugelabs/bluge_segment_api"
)

func init() {
	vpRegister("vpH_C01_bigterm", vpH_C01_bigterm)
	vpRegister("vpH_C02_bigmerge", vpH_C02_bigmerge)
}

// vpBigDocs: n documents; term "x" of field "a" occurs in every document
// (cardinality > 1024 => several adaptive chunks), with one location in every
// third document; term "r" occurs in documents 0, n/2, n-1.  Values are
// functions of the document number; `sym` documents get symbolic frequencies.
func vpBigDocs(n int, sym map[int]bool) []*vpDoc {
	return vpBigDocsRep(n, sym, false)
}

// vpBigDocsRep: with repeated=true every document carries field "a" twice, the
// second instance holding term "x" again (frequency 1, no location), so the
// number of term instances differs from the number of documents.
func vpBigDocsRep(n int, sym map[int]bool, repeated bool) []*vpDoc {
	var ds []*vpDoc
	for d := 0; d < n; d++ {
		t := &vpTerm{term: []byte("x"), freq: 2 + d%5}
		if sym[d] {
			t.freq = 1 + int(vpRange("bigfreq", 0, 1<<40))
		}
		if d%3 == 0 {
			t.freq = 1
			t.locs = []*vpLoc{{field: "", pos: d, start: d + 1, end: d + 2}}
		}
		f := &vpField{name: "a", length: 1 + d%7, terms: []*vpTerm{t}}
		if d == 0 || d == n/2 || d == n-1 {
			f.terms = append(f.terms, &vpTerm{term: []byte("r"), freq: 3})
		}
		doc := &vpDoc{fields: []*vpField{f}}
		if repeated {
			doc.fields = append(doc.fields, &vpField{name: "a", length: 1, terms: []*vpTerm{{term: []byte("x"), freq: 1}}})
		}
		ds = append(ds, doc)
	}
	return ds
}

func vpBigCheck(tag string, seg *Segment, docs []*vpDoc, targets []uint64) {
	exp := vpBuildExpect(docs, nil)
	d, err := seg.Dictionary("a")
	vpMust(err, "Dictionary")
	for _, term := range []string{"x", "r", ""} {
		pl, err := d.PostingsList([]byte(term), nil, nil)
		vpMust(err, "PostingsList")
		vpAssert(pl.Count() == uint64(len(exp.post["a"][term])), tag+": Count of a large list")
		vpPostingsMatch(tag+": large list", vpReadPostings2(pl), exp.post["a"][term])
	}
	// Advance across the adaptive chunk boundaries, with an exclusion bitmap
	ex := roaring.New()
	ex.Add(uint32(len(docs) / 2))
	pl, err := d.PostingsList([]byte("x"), ex, nil)
	vpMust(err, "PostingsList")
	it, err := pl.Iterator(true, true, true, nil)
	vpMust(err, "Iterator")
	want := exp.post["a"]["x"]
	for _, t := range targets {
		p, err := it.Advance(t)
		vpMust(err, "Advance")
		wd := t
		if wd == uint64(len(docs)/2) {
			wd++ // excluded
		}
		if wd >= uint64(len(docs)) {
			vpAssert(p == nil, tag+": Advance past the end")
			continue
		}
		vpAssert(p != nil && p.Number() == wd, tag+": Advance lands on the first live posting >= target")
		if p != nil && p.Number() == wd {
			w := want[wd]
			vpAssert(p.Frequency() == w.freq && vpNormOf(p) == w.normBits && len(p.Locations()) == len(w.locs), tag+": values belong to the returned document")
		}
	}
}

// vpReadPostings2 is vpReadPostings without the small-list guard.
func vpReadPostings2(pl segment.PostingsList) []vpXPosting {
	it, err := pl.Iterator(true, true, true, nil)
	vpMust(err, "PostingsList.Iterator")
	var out []vpXPosting
	for {
		p, err := it.Next()
		vpMust(err, "PostingsIterator.Next")
		if p == nil {
			break
		}
		x := vpXPosting{doc: p.Number(), freq: p.Frequency(), normBits: vpNormOf(p)}
		for _, l := range p.Locations() {
			x.locs = append(x.locs, vpXLoc{l.Field(), l.Pos(), l.Start(), l.End()})
		}
		out = append(out, x)
		if len(out) > 5000 {
			vpAssert(false, "postings iterator does not terminate")
			break
		}
	}
	return out
}

// C01: a term in more than 1024 documents (adaptive chunk mode: several
// chunks), read back completely and navigated with Advance; legacy mode 1024 too.
func vpH_C01_bigterm() {
	n := 1100
	if vpThorough() {
		n = []int{1100, 2100}[vpChoice("n", 2)]
	}
	docs := vpBigDocsRep(n, map[int]bool{7: true, n - 2: true}, vpChoice("repeated-field", 2) == 1)
	mode := []uint32{1025, 1024}[vpChoice("mode", 2)]
	seg := vpBuild(docs, mode)
	seg = vpLoadedVariant(seg)
	half := uint64(n / 2)
	vpBigCheck("big", seg, docs, []uint64{3, half - 2, half, half + 30, uint64(n) - 1, uint64(n) + 5})
	vpReach("C01 bigterm end")
}

// C02: two 600-document segments merged (term cardinality 1200 minus deletions).
func vpH_C02_bigmerge() {
	a := vpBigDocs(600, map[int]bool{5: true})
	b := vpBigDocs(600, nil)
	if vpChoice("empty-term", 2) == 1 {
		// the empty term, the first term of the field, in (almost) every document:
		// a large list written right after the field switch
		for d, doc := range append(append([]*vpDoc(nil), a...), b...) {
			if d%50 != 7 {
				doc.fields[0].terms = append(doc.fields[0].terms, &vpTerm{term: []byte(""), freq: 1 + d%3})
			}
		}
	}
	sa, sb := vpBuild(a, 1025), vpBuild(b, []uint32{1025, 1024}[vpChoice("modeB", 2)])
	dr := roaring.New()
	var drb *roaring.Bitmap
	var surv []*vpDoc
	segs := []*Segment{sa, sb}
	survChoice := vpChoice("survivors", 3)
	if survChoice >= 1 {
		// exactly 1024 (1023) survivors, all of them holding term x: the boundary of
		// the adaptive chunk size (cardinality / 1024 + 1 chunks)
		drb = roaring.New()
		for d := 0; d < 88; d++ {
			dr.Add(uint32(d))
			drb.Add(uint32(d))
		}
		cutA := 88
		if survChoice == 2 {
			dr.Add(88)
			cutA = 89
		}
		surv = append(append(surv, a[cutA:]...), b[88:]...)
	} else {
		for d := range a {
			if d%97 == 13 {
				dr.Add(uint32(d))
			} else {
				surv = append(surv, a[d])
			}
		}
		surv = append(surv, b...)
	}
	drops := []*roaring.Bitmap{dr, drb}
	if survChoice == 2 {
		// 1023 survivors plus a third, second-generation input whose only document
		// holds x as a 1-hit term and is deleted by this merge
		g := []*vpDoc{{fields: []*vpField{{name: "a", length: 1, terms: []*vpTerm{{term: []byte("x"), freq: 1}}}}}}
		gb, _ := vpMergeBytes([]*Segment{vpBuild(g, 1025)}, []*roaring.Bitmap{nil}, 1025)
		dg := roaring.New()
		dg.Add(0)
		segs = []*Segment{vpLoad(gb), sa, sb}
		drops = []*roaring.Bitmap{dg, dr, drb}
	}
	mb, _ := vpMergeBytes(segs, drops, 1025)
	m := vpLoad(mb)
	n := len(surv)
	half := uint64(n / 2)
	targets := []uint64{1, half - 1, half, half + 2, 1023, 1024, 1025, uint64(n) - 1}
	if n <= 1024 {
		// non-decreasing targets
		targets = []uint64{1, half - 1, half, half + 2, 1021, 1022, 1023, 1024, 1025}
	}
	vpBigCheck("bigmerge", m, surv, targets)
	vpReach("C02 bigmerge end")
}
