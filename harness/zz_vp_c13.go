//go:build verif

package ice

import (
	"github.com/RoaringBitmap/roaring"
	segment "github.com/blugelabs/bluge_segment_api"
)

func init() {
	vpRegister("vpH_C13_reuse", vpH_C13_reuse)
	vpRegister("vpH_C13_pool", vpH_C13_pool)
	vpRegister("vpH_C13_mixed", vpH_C13_mixed)
	vpRegister("vpH_C13_faultretry", vpH_C13_faultretry)
}

type vpLookup struct {
	seg    int
	field  string
	term   string
	except bool
	flags  int
	walk   int // number of postings to read (then the iterator is abandoned mid-way)
}

func vpChooseLookup() vpLookup {
	l := vpLookup{seg: vpChoice("seg", 2)}
	switch vpChoice("term", 4) {
	case 0:
		l.field, l.term = "a", "x" // several documents, locations
	case 1:
		l.field, l.term = "_id", "d1" // single document (1-hit in the merged segment)
	case 2:
		l.field, l.term = "b", "x" // no locations
	default:
		l.field, l.term = "a", "absent"
	}
	l.except = vpChoice("except", 2) == 1
	if vpThorough() {
		l.flags = vpChoice("flags", 3)
		l.walk = 1 + vpChoice("walk", 3)
	} else {
		l.flags = 2 * vpChoice("flags", 2)
		l.walk = 1 + 2*vpChoice("walk", 2)
	}
	return l
}

// vpDoLookup performs a lookup, reusing pl/it when given, and returns a digest
// of everything it observed plus the objects to hand to the next lookup.
func vpDoLookup(segs []*Segment, dicts map[string]segment.Dictionary, l vpLookup, pl segment.PostingsList, it segment.PostingsIterator) ([]uint64, segment.PostingsList, segment.PostingsIterator) {
	var dig []uint64
	key := string(rune('0'+l.seg)) + l.field
	d := dicts[key]
	if d == nil {
		var err error
		d, err = segs[l.seg].Dictionary(l.field)
		vpMust(err, "Dictionary")
		dicts[key] = d // one dictionary is kept across lookups
	}
	var ex *roaring.Bitmap
	if l.except {
		ex = roaring.New()
		ex.Add(0)
	}
	npl, err := d.PostingsList([]byte(l.term), ex, pl)
	vpMust(err, "PostingsList")
	dig = append(dig, npl.Count())
	nit, err := npl.Iterator(l.flags >= 1, l.flags >= 1, l.flags >= 2, it)
	vpMust(err, "Iterator")
	for k := 0; k < l.walk; k++ {
		p, err := nit.Next()
		vpMust(err, "Next")
		if p == nil {
			dig = append(dig, 0xffff)
			break
		}
		dig = append(dig, p.Number(), uint64(p.Frequency()), uint64(vpNormOf(p)), uint64(len(p.Locations())))
		for _, loc := range p.Locations() {
			dig = append(dig, uint64(loc.Pos()), uint64(loc.Start()), uint64(loc.End()), uint64(len(loc.Field())))
		}
	}
	return dig, npl, nit
}

func vpU64sEq(a, b []uint64) bool {
	if len(a) != len(b) {
		return false
	}
	ok := true
	for i := range a {
		ok = vpAnd(ok, a[i] == b[i])
	}
	return ok
}

// C13: any sequence of L lookups over a built and a merged segment; each lookup
// may reuse the postings list and iterator of the previous one.
func vpH_C13_reuse() {
	docs := vpC13Docs()
	mode := uint32(2)
	if vpThorough() {
		mode = []uint32{1025, 2}[vpChoice("mode", 2)]
	}
	s1 := vpBuild(docs, mode)
	mb, _ := vpMergeBytes([]*Segment{s1}, []*roaring.Bitmap{nil}, 1025)
	s2 := vpLoad(mb)
	segs := []*Segment{s1, s2}
	L := 2
	var pl segment.PostingsList
	var it segment.PostingsIterator
	switch vpChoice("initial", 2) {
	case 1:
		// the documented sentinels are legal prealloc arguments too
		pl, it = emptyPostingsList, emptyPostingsIterator
	}
	reuseDicts := map[string]segment.Dictionary{}
	for k := 0; k < L; k++ {
		l := vpChooseLookup()
		fresh, _, _ := vpDoLookup(segs, map[string]segment.Dictionary{}, l, nil, nil)
		var got []uint64
		got, pl, it = vpDoLookup(segs, reuseDicts, l, pl, it)
		vpAssert(vpU64sEq(got, fresh), "lookup with reused objects returns what fresh objects return")
	}
	vpReach("C13 reuse end")
}

// C13: the library's internal pooling (visit context) never changes results.
func vpH_C13_pool() {
	g := vpNewGen(0)
	docs := []*vpDoc{g.doc(5, 0), g.doc(4, 1), g.doc(1, 2)}
	seg := vpBuild(docs, 1025)
	exp := vpBuildExpect(docs, nil)
	vpPoolReuse(vpChoice("pool-recycles", 2) == 1)
	order := [][]int{{0, 1, 2}, {1, 0, 1}, {2, 2, 0}}[vpChoice("order", 3)]
	for _, n := range order {
		vpVisitCheck("pooled visit", seg, uint64(n), exp.stored[n], vpChoice("stop", 2)-1)
	}
	vpReach("C13 pool end")
}

// concrete documents: "a"/"x" in docs 0,1,2 (locations in 0 and 2), "b"/"x" in 1 and 3, ids d0..d3
func vpC13Docs() []*vpDoc {
	id := func(k int) *vpField {
		s := string([]byte{'d', byte('0' + k)})
		return &vpField{name: "_id", store: true, value: []byte(s), length: 1, terms: []*vpTerm{{term: []byte(s), freq: 1}}}
	}
	return []*vpDoc{
		{fields: []*vpField{id(0), {name: "a", length: 3, terms: []*vpTerm{{term: []byte("x"), freq: 2, locs: []*vpLoc{{"", 1, 2, 3}, {"", 4, 5, 6}}}}}}},
		{fields: []*vpField{id(1), {name: "a", length: 5, terms: []*vpTerm{{term: []byte("x"), freq: 7}}}, {name: "b", dv: true, length: 1, terms: []*vpTerm{{term: []byte("x"), freq: 1}}}}},
		{fields: []*vpField{id(2), {name: "a", length: 2, terms: []*vpTerm{{term: []byte("x"), freq: 1, locs: []*vpLoc{{"", 7, 8, 9}}}, {term: []byte("y"), freq: 1}}}}},
		{fields: []*vpField{id(3), {name: "b", dv: true, length: 4, terms: []*vpTerm{{term: []byte("x"), freq: 3}}}}},
	}
}

func init() { vpRegister("vpH_C13_readers", vpH_C13_readers) }

// C13: long-lived dictionaries, dictionary iterators and doc-value readers:
// a second iterator from the same Dictionary, a Dictionary used for many
// lookups, and one DocumentValueReader used for a sequence of documents must
// return what fresh objects return.
func vpH_C13_readers() {
	docs := vpC13Docs()
	// add a second doc-value field and documents without some of the fields
	docs[0].fields = append(docs[0].fields, &vpField{name: "e", dv: true, length: 1, terms: []*vpTerm{{term: []byte("m"), freq: 1}}})
	docs[2].fields = append(docs[2].fields, &vpField{name: "e", dv: true, length: 2, terms: []*vpTerm{{term: []byte("n"), freq: 1}, {term: []byte("m"), freq: 1}}})
	seg := vpBuild(docs, 2)
	switch vpChoice("kind", 3) {
	case 1:
		seg = vpLoad(vpPersist(seg))
	case 2:
		mb, _ := vpMergeBytes([]*Segment{seg}, []*roaring.Bitmap{nil}, 1025)
		seg = vpLoad(mb)
	}
	field := []string{"a", "b", "_id"}[vpChoice("field", 3)]
	enumerate := func(d segment.Dictionary, stopAfter int) []vpObsDictEntry {
		it := d.Iterator(nil, nil, nil)
		var out []vpObsDictEntry
		for {
			e, err := it.Next()
			vpMust(err, "DictionaryIterator.Next")
			if e == nil || (stopAfter >= 0 && len(out) >= stopAfter) {
				return out
			}
			out = append(out, vpObsDictEntry{e.Term(), e.Count()})
		}
	}
	fresh, err := seg.Dictionary(field)
	vpMust(err, "Dictionary")
	want := enumerate(fresh, -1)
	d, err := seg.Dictionary(field)
	vpMust(err, "Dictionary")
	// first use: an iterator abandoned after k entries, some term lookups
	enumerate(d, vpChoice("abandon-after", 3))
	for _, t := range []string{"x", "absent", "d1"} {
		_, err := d.PostingsList([]byte(t), nil, nil)
		vpMust(err, "PostingsList")
	}
	got := enumerate(d, -1)
	vpAssert(len(got) == len(want), "a reused dictionary enumerates the same number of terms")
	if len(got) == len(want) {
		for i := range got {
			vpAssert(got[i].term == want[i].term && got[i].count == want[i].count, "a reused dictionary enumerates the same entries")
		}
	}
	// two live iterators from the same Dictionary, used alternately: each must
	// enumerate the whole dictionary on its own
	{
		k := vpChoice("interleave-after", 3)
		it1 := d.Iterator(nil, nil, nil)
		var got1 []vpObsDictEntry
		for i := 0; i < k; i++ {
			e, err := it1.Next()
			vpMust(err, "DictionaryIterator.Next")
			if e == nil {
				break
			}
			got1 = append(got1, vpObsDictEntry{e.Term(), e.Count()})
		}
		it2 := d.Iterator(nil, nil, nil)
		var got2 []vpObsDictEntry
		for {
			e1, err := it1.Next()
			vpMust(err, "DictionaryIterator.Next")
			if e1 != nil {
				got1 = append(got1, vpObsDictEntry{e1.Term(), e1.Count()})
			}
			e2, err := it2.Next()
			vpMust(err, "DictionaryIterator.Next")
			if e2 != nil {
				got2 = append(got2, vpObsDictEntry{e2.Term(), e2.Count()})
			}
			if e1 == nil && e2 == nil {
				break
			}
		}
		for _, g := range [][]vpObsDictEntry{got1, got2} {
			vpAssert(len(g) == len(want), "interleaved iterators of one dictionary each enumerate every term")
			if len(g) == len(want) {
				for i := range g {
					vpAssert(g[i].term == want[i].term && g[i].count == want[i].count, "interleaved iterators of one dictionary each enumerate the same entries")
				}
			}
		}
	}
	// one doc-value reader over a sequence of documents vs a fresh reader per document
	fields := [][]string{{"b", "e"}, {"e"}, {"e", "zz", "b"}}[vpChoice("dvfields", 3)]
	order := [][]uint64{{0, 1, 2, 3}, {3, 2, 1, 0}, {2, 2, 0, 3}}[vpChoice("order", 3)]
	r, err := seg.DocumentValueReader(fields)
	vpMust(err, "DocumentValueReader")
	collect := func(rd segment.DocumentValueReader, n uint64) []string {
		var out []string
		err := rd.VisitDocumentValues(n, func(f string, t []byte) { out = append(out, f+"="+string(t)) })
		vpMust(err, "VisitDocumentValues")
		return out
	}
	for _, n := range order {
		fr, err := seg.DocumentValueReader(fields)
		vpMust(err, "DocumentValueReader")
		vpAssert(vpStrsEq(collect(r, n), collect(fr, n)), "a reused doc-value reader returns what a fresh one returns")
	}
	vpReach("C13 readers end")
}

// vpFullList digests a postings list through a NEW iterator: count and every posting.
func vpFullList(pl segment.PostingsList) []uint64 {
	dig := []uint64{pl.Count()}
	it, err := pl.Iterator(true, true, true, nil)
	vpMust(err, "Iterator")
	for k := 0; k < 8; k++ {
		p, err := it.Next()
		vpMust(err, "Next")
		if p == nil {
			break
		}
		dig = append(dig, p.Number(), uint64(p.Frequency()), uint64(len(p.Locations())))
	}
	return dig
}

// C13: the postings list and the iterator of an earlier lookup are reused
// INDEPENDENTLY (only the list, only the iterator, both, none) by a second
// lookup; the objects that were not handed over stay in use: the first list is
// read again and (unless its list was recycled) the first iterator is continued.  Everything equals what
// fresh objects return.
func vpH_C13_mixed() {
	docs := vpC13Docs()
	seg := vpBuild(docs, 2)
	if vpChoice("merged", 2) == 1 {
		mb, _ := vpMergeBytes([]*Segment{seg}, []*roaring.Bitmap{nil}, 1025)
		seg = vpLoad(mb)
	}
	segs := []*Segment{seg, seg}
	pick := func(tag string) vpLookup {
		l := vpLookup{flags: 2, walk: 1}
		switch vpChoice(tag+"-term", 5) {
		case 0:
			l.field, l.term = "a", "x"
		case 1:
			l.field, l.term = "b", "x"
		case 3:
			l.field, l.term = "nofield", "x" // unknown field
		case 4:
			l.field, l.term = "a", "absent"
		default:
			l.field, l.term = "_id", "d1"
		}
		l.except = vpChoice(tag+"-except", 2) == 1
		return l
	}
	l1, l2 := pick("first"), pick("second")
	// fresh reference: lookup 1 (one posting read, then the rest), lookup 2, list 1 again
	_, fpl1, fit1 := vpDoLookup(segs, map[string]segment.Dictionary{}, l1, nil, nil)
	wantList1 := vpFullList(fpl1)
	var wantRest []uint64
	for k := 0; k < 4; k++ {
		p, err := fit1.Next()
		vpMust(err, "Next")
		if p == nil {
			break
		}
		wantRest = append(wantRest, p.Number(), uint64(p.Frequency()))
	}
	want2, _, _ := vpDoLookup(segs, map[string]segment.Dictionary{}, l2, nil, nil)

	dicts := map[string]segment.Dictionary{}
	_, pl1, it1 := vpDoLookup(segs, dicts, l1, nil, nil)
	var prePL segment.PostingsList
	var preIT segment.PostingsIterator
	if vpChoice("docs-matching-terms-between", 2) == 1 {
		// the library's own internal reuse of lists (DocsMatchingTerms) in between
		_, err := seg.DocsMatchingTerms([]segment.Term{vpTermRef{"a", "absent"}, vpTermRef{"a", "x"}, vpTermRef{"_id", "d1"}})
		vpMust(err, "DocsMatchingTerms")
		// lookups of absent terms / unknown fields still return nothing
		for _, ft := range [][2]string{{"a", "absent"}, {"nofield", "x"}} {
			d, err := seg.Dictionary(ft[0])
			vpMust(err, "Dictionary")
			pl, err := d.PostingsList([]byte(ft[1]), nil, nil)
			vpMust(err, "PostingsList")
			vpAssert(pl.Count() == 0, "an absent term has no postings after DocsMatchingTerms")
			it, err := pl.Iterator(true, true, true, nil)
			vpMust(err, "Iterator")
			p, err := it.Next()
			vpMust(err, "Next")
			vpAssert(p == nil, "an absent term has no postings after DocsMatchingTerms")
		}
	}
	giveList, giveIter := vpChoice("reuse-list", 2) == 1, vpChoice("reuse-iterator", 2) == 1
	if giveList {
		prePL = pl1
	}
	if giveIter {
		preIT = it1
	}
	got2, _, _ := vpDoLookup(segs, dicts, l2, prePL, preIT)
	vpAssert(vpU64sEq(got2, want2), "second lookup (list / iterator reused independently) returns what fresh objects return")
	if !giveList {
		vpAssert(vpU64sEq(vpFullList(pl1), wantList1), "a postings list that was not handed over still returns its own postings")
	}
	if !giveIter && !giveList {
		// (an iterator reads from its list: recycling the list ends the life of its iterators)
		var rest []uint64
		for k := 0; k < 4; k++ {
			p, err := it1.Next()
			vpMust(err, "Next")
			if p == nil {
				break
			}
			rest = append(rest, p.Number(), uint64(p.Frequency()))
		}
		vpAssert(vpU64sEq(rest, wantRest), "an iterator that was not handed over continues where it was")
	}
	vpReach("C13 mixed end")
}

// C13 with a transient storage fault: two file-backed segments of the same
// shape (different symbolic stored values) read through the recycled visit
// context; exactly one read of a visit of B fails, the visit is retried, and A
// is read again: every successful visit returns its own document.
func vpH_C13_faultretry() {
	g := vpNewGen(0)
	a := []*vpDoc{g.doc(4, 0), g.doc(5, 1)}
	b := []*vpDoc{g.doc(4, 0), g.doc(5, 1)}
	g.done()
	sa, _ := vpLoadFile(vpPersist(vpBuild(a, 1025)))
	sb, fb := vpLoadFile(vpPersist(vpBuild(b, 1025)))
	ea, eb := vpBuildExpect(a, vpFieldNames(a)), vpBuildExpect(b, vpFieldNames(b))
	vpPoolReuse(true)
	vpVisitCheck("segment A", sa, 0, ea.stored[0], -1)
	n := vpChoice("doc", 2)
	fb.failOnce = true
	fb.failFrom = fb.reads + vpChoice("failing-read", 4)
	var got []vpXStored
	err := sb.VisitStoredFields(uint64(n), func(field string, value []byte) bool {
		got = append(got, vpXStored{field, append([]byte(nil), value...)})
		return true
	})
	if fb.reads <= fb.failFrom {
		fb.failFrom = -1 // the visit needed fewer reads: no fault was injected
		vpAssert(err == nil, "fault-free visit succeeds")
	} else {
		vpReach("C13 transient fault injected")
		vpAssert(err != nil || len(got) == 0 || len(got) == len(eb.stored[n]), "a visit with a failed read reports an error or delivers the document")
	}
	vpVisitCheck("segment B, retry", sb, uint64(n), eb.stored[n], -1)
	vpVisitCheck("segment A again", sa, 1, ea.stored[1], -1)
	vpVisitCheck("segment B again", sb, uint64(1-n), eb.stored[1-n], -1)
	vpPoolReuse(false)
	vpReach("C13 faultretry end")
}

func init() { vpRegister("vpH_C13_bigreuse", vpH_C13_bigreuse) }

// C13 on a segment with more than 1024 documents: ONE PostingsList (and one iterator)
// recycled across terms of the same segment whose cardinalities fall into different
// adaptive chunk-size buckets ("x" in all 1100 documents: two chunks; "r" in 3
// documents spread over the whole range: one chunk; then "x" again), in both orders;
// every read equals the read through fresh objects.  State that read() derives from the
// term (chunk size, 1-hit fields, bitmap) may not survive the reuse.
func vpH_C13_bigreuse() {
	docs := vpBigDocs(1100, nil)
	seg := vpBuild(docs, []uint32{1025, 1024}[vpChoice("mode", 2)])
	seg = vpLoadedVariant(seg)
	exp := vpBuildExpect(docs, nil)
	d, err := seg.Dictionary("a")
	vpMust(err, "Dictionary")
	order := [][]string{{"x", "r", "x"}, {"r", "x", "r"}, {"x", "absent", "r"}}[vpChoice("order", 3)]
	var pl segment.PostingsList
	var it segment.PostingsIterator
	for step, term := range order {
		pl, err = d.PostingsList([]byte(term), nil, pl)
		vpMust(err, "PostingsList (recycled)")
		want := exp.post["a"][term]
		vpAssert(pl.Count() == uint64(len(want)), "recycled big list: Count")
		it, err = pl.Iterator(true, true, true, it)
		vpMust(err, "Iterator (recycled)")
		var out []vpXPosting
		for {
			p, err := it.Next()
			vpMust(err, "Next on a recycled big list")
			if p == nil {
				break
			}
			x := vpXPosting{doc: p.Number(), freq: p.Frequency(), normBits: vpNormOf(p)}
			for _, l := range p.Locations() {
				x.locs = append(x.locs, vpXLoc{l.Field(), l.Pos(), l.Start(), l.End()})
			}
			out = append(out, x)
			if len(out) > 5000 {
				vpAssert(false, "postings iterator does not terminate")
				break
			}
		}
		vpPostingsMatch("recycled big list step "+string(rune('0'+step)), out, want)
	}
	vpReach("C13 bigreuse end")
}
