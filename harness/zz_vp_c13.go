//go:build verif

package ice

import (
	"github.com/RoaringBitmap/roaring"
	segment "github.com/blugelabs/bluge_segment_api"
)

func init() {
	vpRegister("vpH_C13_reuse", vpH_C13_reuse)
	vpRegister("vpH_C13_pool", vpH_C13_pool)
}

type vpLookup struct {
	seg    int
	field  string
	term   string
	except bool
	flags  int
	walk   int // number of postings to read (then the iterator is abandoned mid-way)
}

func vpChooseLookup() vpLookup {
	l := vpLookup{seg: vpChoice("seg", 2)}
	switch vpChoice("term", 4) {
	case 0:
		l.field, l.term = "a", "x" // several documents, locations
	case 1:
		l.field, l.term = "_id", "d1" // single document (1-hit in the merged segment)
	case 2:
		l.field, l.term = "b", "x" // no locations
	default:
		l.field, l.term = "a", "absent"
	}
	l.except = vpChoice("except", 2) == 1
	if vpThorough() {
		l.flags = vpChoice("flags", 3)
		l.walk = 1 + vpChoice("walk", 3)
	} else {
		l.flags = 2 * vpChoice("flags", 2)
		l.walk = 1 + 2*vpChoice("walk", 2)
	}
	return l
}

// vpDoLookup performs a lookup, reusing pl/it when given, and returns a digest
// of everything it observed plus the objects to hand to the next lookup.
func vpDoLookup(segs []*Segment, dicts map[string]segment.Dictionary, l vpLookup, pl segment.PostingsList, it segment.PostingsIterator) ([]uint64, segment.PostingsList, segment.PostingsIterator) {
	var dig []uint64
	key := string(rune('0'+l.seg)) + l.field
	d := dicts[key]
	if d == nil {
		var err error
		d, err = segs[l.seg].Dictionary(l.field)
		vpMust(err, "Dictionary")
		dicts[key] = d // one dictionary is kept across lookups
	}
	var ex *roaring.Bitmap
	if l.except {
		ex = roaring.New()
		ex.Add(0)
	}
	npl, err := d.PostingsList([]byte(l.term), ex, pl)
	vpMust(err, "PostingsList")
	dig = append(dig, npl.Count())
	nit, err := npl.Iterator(l.flags >= 1, l.flags >= 1, l.flags >= 2, it)
	vpMust(err, "Iterator")
	for k := 0; k < l.walk; k++ {
		p, err := nit.Next()
		vpMust(err, "Next")
		if p == nil {
			dig = append(dig, 0xffff)
			break
		}
		dig = append(dig, p.Number(), uint64(p.Frequency()), uint64(vpNormOf(p)), uint64(len(p.Locations())))
		for _, loc := range p.Locations() {
			dig = append(dig, uint64(loc.Pos()), uint64(loc.Start()), uint64(loc.End()), uint64(len(loc.Field())))
		}
	}
	return dig, npl, nit
}

func vpU64sEq(a, b []uint64) bool {
	if len(a) != len(b) {
		return false
	}
	ok := true
	for i := range a {
		ok = vpAnd(ok, a[i] == b[i])
	}
	return ok
}

// C13: any sequence of L lookups over a built and a merged segment; each lookup
// may reuse the postings list and iterator of the previous one.
func vpH_C13_reuse() {
	docs := vpC13Docs()
	mode := uint32(2)
	if vpThorough() {
		mode = []uint32{1025, 2}[vpChoice("mode", 2)]
	}
	s1 := vpBuild(docs, mode)
	mb, _ := vpMergeBytes([]*Segment{s1}, []*roaring.Bitmap{nil}, 1025)
	s2 := vpLoad(mb)
	segs := []*Segment{s1, s2}
	L := 2
	var pl segment.PostingsList
	var it segment.PostingsIterator
	switch vpChoice("initial", 2) {
	case 1:
		// the documented sentinels are legal prealloc arguments too
		pl, it = emptyPostingsList, emptyPostingsIterator
	}
	reuseDicts := map[string]segment.Dictionary{}
	for k := 0; k < L; k++ {
		l := vpChooseLookup()
		fresh, _, _ := vpDoLookup(segs, map[string]segment.Dictionary{}, l, nil, nil)
		var got []uint64
		got, pl, it = vpDoLookup(segs, reuseDicts, l, pl, it)
		vpAssert(vpU64sEq(got, fresh), "lookup with reused objects returns what fresh objects return")
	}
	vpReach("C13 reuse end")
}

// C13: the library's internal pooling (visit context) never changes results.
func vpH_C13_pool() {
	g := vpNewGen(0)
	docs := []*vpDoc{g.doc(5, 0), g.doc(4, 1), g.doc(1, 2)}
	seg := vpBuild(docs, 1025)
	exp := vpBuildExpect(docs, nil)
	vpPoolReuse(vpChoice("pool-recycles", 2) == 1)
	order := [][]int{{0, 1, 2}, {1, 0, 1}, {2, 2, 0}}[vpChoice("order", 3)]
	for _, n := range order {
		vpVisitCheck("pooled visit", seg, uint64(n), exp.stored[n], vpChoice("stop", 2)-1)
	}
	vpReach("C13 pool end")
}

// concrete documents: "a"/"x" in docs 0,1,2 (locations in 0 and 2), "b"/"x" in 1 and 3, ids d0..d3
func vpC13Docs() []*vpDoc {
	id := func(k int) *vpField {
		s := string([]byte{'d', byte('0' + k)})
		return &vpField{name: "_id", store: true, value: []byte(s), length: 1, terms: []*vpTerm{{term: []byte(s), freq: 1}}}
	}
	return []*vpDoc{
		{fields: []*vpField{id(0), {name: "a", length: 3, terms: []*vpTerm{{term: []byte("x"), freq: 2, locs: []*vpLoc{{"", 1, 2, 3}, {"", 4, 5, 6}}}}}}},
		{fields: []*vpField{id(1), {name: "a", length: 5, terms: []*vpTerm{{term: []byte("x"), freq: 7}}}, {name: "b", dv: true, length: 1, terms: []*vpTerm{{term: []byte("x"), freq: 1}}}}},
		{fields: []*vpField{id(2), {name: "a", length: 2, terms: []*vpTerm{{term: []byte("x"), freq: 1, locs: []*vpLoc{{"", 7, 8, 9}}}, {term: []byte("y"), freq: 1}}}}},
		{fields: []*vpField{id(3), {name: "b", dv: true, length: 4, terms: []*vpTerm{{term: []byte("x"), freq: 3}}}}},
	}
}
