//go:build verif

package ice

import (
	"github.com/RoaringBitmap/roaring"
	segment "github.com/blugelabs/bluge_segment_api"
)

func init() {
	vpRegister("vpH_C19_fault", vpH_C19_fault)
	vpRegister("vpH_C19_bigdv", vpH_C19_bigdv)
	vpRegister("vpH_C19_bigdict", vpH_C19_bigdict)
}

var vpFaultOps = []string{"Dictionary(a)", "Dictionary(_id)", "PostingsList+iterate", "VisitStoredFields", "DocumentValues", "DocsMatchingTerms", "CollectionStats", "PostingsList(location-free term)+iterate with locations", "PostingsList(with deletions)+iterate"}

// vpFaultOp runs read API calls on a file-backed segment.  After each single
// API call `chk` is told its error and whether its result was empty: a call
// during which the storage failed must report an error or deliver nothing.
func vpFaultOp(k int, seg *Segment, file *vpFile) {
	mark := file.reads
	chk := func(what string, err error, empty bool) bool {
		hit := file.failFrom >= mark && file.failFrom < file.reads
		mark = file.reads
		if hit {
			vpReach("C19 storage failed during a call")
			vpAssert(err != nil || empty, "failed storage read is reported or yields an empty result: "+what)
		}
		return err != nil
	}
	switch k {
	case 0, 1:
		f := "a"
		if k == 1 {
			f = "_id"
		}
		d, err := seg.Dictionary(f)
		if chk("Dictionary", err, false) {
			return
		}
		it := d.Iterator(nil, nil, nil)
		for {
			e, err := it.Next()
			if chk("DictionaryIterator.Next", err, e == nil) || e == nil {
				return
			}
		}
	case 2, 7, 8:
		fld := "a"
		if k == 7 {
			fld = "b" // no term of this field has locations: the location stream is not encoded
		}
		d, err := seg.Dictionary(fld)
		if chk("Dictionary", err, false) {
			return
		}
		var except *roaring.Bitmap
		if k == 8 {
			// a deletion bitmap (naming a document outside / inside the list): the
			// iterator walks the full and the live bitmap side by side
			except = roaring.New()
			except.Add(uint32(vpChoice("deleted", 2)))
		}
		pl, err := d.PostingsList([]byte("x"), except, nil)
		if chk("PostingsList", err, false) {
			return
		}
		it, err := pl.Iterator(true, true, true, nil)
		if chk("Iterator", err, false) {
			return
		}
		failed := 0
		for calls := 0; calls < 8; calls++ {
			p, err := it.Next()
			if chk("PostingsIterator.Next", err, p == nil) {
				// the same iterator is used again after an error: it must keep
				// returning (an error or a result), not panic
				failed++
				if failed > 3 {
					return
				}
				continue
			}
			if p == nil {
				return
			}
		}
	case 3:
		for n := uint64(0); n < seg.Count(); n++ {
			got := 0
			err := seg.VisitStoredFields(n, func(string, []byte) bool { got++; return true })
			if chk("VisitStoredFields", err, got == 0) {
				return
			}
		}
	case 4:
		r, err := seg.DocumentValueReader([]string{"b"})
		if chk("DocumentValueReader", err, false) {
			return
		}
		for n := uint64(0); n < seg.Count(); n++ {
			got := 0
			err := r.VisitDocumentValues(n, func(string, []byte) { got++ })
			if chk("VisitDocumentValues", err, got == 0) {
				return
			}
		}
	case 5:
		bm, err := seg.DocsMatchingTerms([]segment.Term{vpTermRef{"a", "x"}, vpTermRef{"b", "x"}})
		chk("DocsMatchingTerms", err, bm == nil || bm.IsEmpty())
	case 6:
		_, err := seg.CollectionStats("a")
		chk("CollectionStats", err, false)
	}
}

// C19: a file-backed segment whose storage starts failing at its k-th ReadAt
// after Load (k symbolic), then a sequence of three read calls: every call
// returns (error or result), none panics, none blocks.
func vpH_C19_fault() {
	g := vpNewGen(0)
	docs := []*vpDoc{g.doc(2, 0), g.doc(5, 1), g.doc(9, 2)}
	// one chunk for all documents, or one chunk per document (chunk loads between postings)
	b := vpPersist(vpBuild(docs, []uint32{1025, 1}[vpChoice("mode", 2)]))
	seg, file := vpLoadFile(b)
	// fault-free reference run of the same call sequence counts the reads
	n3, maxK := 2, uint64(12)
	if vpThorough() {
		n3, maxK = len(vpFaultOps), 40
	}
	ops := []int{vpChoice("op1", len(vpFaultOps)), vpChoice("op2", len(vpFaultOps)), vpChoice("op3", n3)}
	start := file.reads
	file.failFrom = start + int(vpRange("k", 0, maxK))
	for _, k := range ops {
		vpNote("call:" + vpFaultOps[k])
		vpFaultOp(k, seg, file)
	}
	vpReach("C19 fault end")
}

// C19 for a doc-value reader that is kept across calls and chunks: a segment
// of 1030 documents (two 1024-document doc-value chunks; long values in the
// first, short ones in the second), one reader warmed on one chunk, the storage
// starts failing at the k-th read (symbolic) of a visit in the other chunk, and
// the reader is used again for the chunk of the failed call and for every document of the chunk it had loaded:
// each call returns an error or a result, none panics.
func vpH_C19_bigdv() {
	var docs []*vpDoc
	for d := 0; d < 1030; d++ {
		// six documents with values in each chunk: the reader's header array is
		// reused in place when it moves between the chunks
		switch {
		case d < 6:
			docs = append(docs, &vpDoc{fields: []*vpField{{name: "b", dv: true, length: 1, terms: []*vpTerm{{term: []byte("a-much-longer-value"), freq: 1}}}}})
		case d >= 1024:
			docs = append(docs, &vpDoc{fields: []*vpField{{name: "b", dv: true, length: 1, terms: []*vpTerm{{term: []byte("a"), freq: 1}}}}})
		default:
			docs = append(docs, &vpDoc{})
		}
	}
	seg, file := vpLoadFile(vpPersist(vpBuild(docs, 1025)))
	r, err := seg.DocumentValueReader([]string{"b"})
	vpMust(err, "DocumentValueReader")
	warm, other, again := uint64(1026), uint64(4), []uint64{1024, 1025, 1026, 1027, 1029}
	if vpChoice("direction", 2) == 1 {
		warm, other, again = 4, 1026, []uint64{0, 1, 2, 3, 5}
	}
	visit := func(n uint64) (int, error) {
		got := 0
		err := r.VisitDocumentValues(n, func(string, []byte) { got++ })
		return got, err
	}
	// (the reader's per-field state is rebuilt on its second call: warm it twice)
	for i := 0; i < 2; i++ {
		got, err := visit(warm)
		vpAssert(err == nil && got == 1, "fault-free visit delivers the document's value")
	}
	file.failFrom = file.reads + int(vpRange("k", 0, 13))
	mark := file.reads
	got, err := visit(other)
	if file.failFrom < file.reads {
		vpReach("C19 storage failed during a call")
		vpAssert(err != nil || got == 0, "failed storage read is reported or yields an empty result: VisitDocumentValues")
	}
	_ = mark
	for _, n := range append([]uint64{other, other + 1}, again...) {
		// every later call returns (an error or a result): no panic, no hang
		_, _ = visit(n)
	}
	vpReach("C19 bigdv end")
}

// C19 for a field with a large term dictionary (1500 irregular terms: the FST
// is several KiB long): the storage starts failing at the k-th read (symbolic)
// of the lazy dictionary load; every later call returns.
func vpH_C19_bigdict() {
	var terms []*vpTerm
	x := uint32(12345)
	for i := 0; i < 1500; i++ {
		x = x*1664525 + 1013904223
		t := []byte{byte('a' + (x>>27)%26), byte('a' + (x>>22)%26), byte('a' + (x>>17)%26), byte('a' + (x>>12)%26), byte('a' + (x>>7)%26), byte('0' + i%10), byte('0' + i/10%10), byte('0' + i/100%10), byte('0' + i/1000)}
		terms = append(terms, &vpTerm{term: t, freq: 1})
	}
	docs := []*vpDoc{{fields: []*vpField{
		{name: "_id", store: true, value: []byte("d0"), length: 1, terms: []*vpTerm{{term: []byte("d0"), freq: 1}}},
		{name: "a", length: len(terms), terms: terms}}}}
	seg, file := vpLoadFile(vpPersist(vpBuild(docs, 1025)))
	file.failFrom = file.reads + int(vpRange("k", 0, 4))
	for _, f := range []string{"a", "a", "_id", "a"} {
		mark := file.reads
		d, err := seg.Dictionary(f)
		if file.failFrom >= mark && file.failFrom < file.reads {
			vpReach("C19 storage failed during a call")
			vpAssert(err != nil, "failed storage read during the dictionary load is reported")
		}
		if err == nil && d != nil {
			_, _ = d.PostingsList([]byte("d0"), nil, nil)
		}
	}
	_, _ = seg.DocsMatchingTerms([]segment.Term{vpTermRef{"a", "x"}, vpTermRef{"_id", "d0"}})
	vpReach("C19 bigdict end")
}
