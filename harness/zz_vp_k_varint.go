//go:build verif

package ice

import "encoding/binary"

func init() {
	vpRegister("vpH_K1_varint", vpH_K1_varint)
	vpRegister("vpH_K2_freq", vpH_K2_freq)
	vpRegister("vpH_K3_onehit", vpH_K3_onehit)
}

// K1: PutUvarint / Uvarint / memUvarintReader / numUvarintBytes agree for every uint64.
func vpH_K1_varint() {
	x := vpU64("x")
	y := vpU64("y")
	buf := make([]byte, 2*binary.MaxVarintLen64)
	n := binary.PutUvarint(buf, x)
	m := binary.PutUvarint(buf[n:], y)
	vpAssert(numUvarintBytes(x) == n, "numUvarintBytes(x)==len")
	got, k := binary.Uvarint(buf)
	vpAssert(k == n, "Uvarint length")
	vpAssert(got == x, "Uvarint value")
	r := newMemUvarintReader(buf[:n+m])
	v, err := r.ReadUvarint()
	vpAssert(err == nil, "ReadUvarint err")
	vpAssert(v == x, "ReadUvarint value")
	vpAssert(r.C == n, "ReadUvarint advance")
	vpAssert(r.Len() == m, "Len after first")
	v2, err := r.ReadUvarint()
	vpAssert(err == nil && v2 == y, "second value")
	vpAssert(r.Len() == 0, "Len at end")
	r.Reset(buf[:n+m])
	r.SkipUvarint()
	vpAssert(r.C == n, "SkipUvarint advance")
	r.SkipBytes(m)
	vpAssert(r.Len() == 0, "SkipBytes")
	vpAssert(totalUvarintBytes(x, y, 0, 1) == n+m+2, "totalUvarintBytes")
	vpReach("K1 end")
}

// K2: freq/hasLocs packing round-trips for freq < 2^63.
func vpH_K2_freq() {
	f := vpU64("freq")
	b := vpBool("hasLocs")
	vpAssume(f < 1<<63)
	e := encodeFreqHasLocs(f, b)
	df, db := decodeFreqHasLocs(e)
	vpAssert(uint64(df) == f, "freq round trip")
	vpAssert(db == b, "hasLocs round trip")
	vpAssert((e&1 != 0) == b, "skip path bit test")
	vpReach("K2 end")
}

// K3: 1-hit FST value packing.
func vpH_K3_onehit() {
	doc := vpU64("doc")
	norm := vpU64("norm")
	vpAssume(under32Bits(doc))
	vpAssume(norm > 0 && norm < 0x7f800000) // bit pattern of a positive finite float32
	v := fSTValEncode1Hit(doc, norm)
	vpAssert(v&fSTValEncodingMask == fSTValEncoding1Hit, "tag bits")
	d, n := fSTValDecode1Hit(v)
	vpAssert(d == doc, "docNum round trip")
	vpAssert(n == norm, "norm round trip")
	vpAssert(n != 0, "norm nonzero")
	off := vpU64("off")
	vpAssume(off < 1<<62)
	vpAssert(off&fSTValEncodingMask != fSTValEncoding1Hit, "offset is never 1-hit tagged")
	vpReach("K3 end")
}
