//go:build verif

package ice

import (
	"github.com/RoaringBitmap/roaring"
	segment "github.com/blugelabs/bluge_segment_api"
)

func init() {
	vpRegister("vpH_C07_dv", vpH_C07_dv)
	vpRegister("vpH_C07_chunks", vpH_C07_chunks)
	vpRegister("vpH_C07_longterms", vpH_C07_longterms)
}

// vpDvDoc builds a document whose dv fields "b" and "e" carry the chosen term sets.
var vpDvTermSets = [][]string{nil, {"x"}, {"y\xfe", "", "x"}}

func vpDvDoc(tag string, idx int) *vpDoc {
	d := &vpDoc{}
	kb := vpChoice(tag+"-b", len(vpDvTermSets))
	ke := vpChoice(tag+"-e", 2)
	mk := func(name string, ts []string, dv bool) *vpField {
		f := &vpField{name: name, dv: dv, length: len(ts)}
		for _, t := range ts {
			f.terms = append(f.terms, &vpTerm{term: []byte(t), freq: 1})
		}
		return f
	}
	if kb > 0 {
		d.fields = append(d.fields, mk("b", vpDvTermSets[kb], true))
	}
	if ke > 0 {
		d.fields = append(d.fields, mk("e", []string{"m"}, true))
	}
	// a field without doc values that shares a term
	d.fields = append(d.fields, mk("a", []string{"x"}, false))
	return d
}

var vpDvFieldLists = [][]string{{"b"}, {"e", "b"}, {"zz", "b", "a"}, {"a"}, {"b", "b"}, nil}

func vpDvVisit(tag string, r segment.DocumentValueReader, n uint64, fields []string, exp *vpExpect) {
	got := map[string][]string{}
	err := r.VisitDocumentValues(n, func(field string, term []byte) {
		got[field] = append(got[field], string(term))
	})
	vpMust(err, "VisitDocumentValues")
	// expected: per requested dv field, the sorted terms of document n; a field
	// requested twice is still delivered per occurrence in the list
	want := map[string][]string{}
	for _, f := range fields {
		if m := exp.dv[f]; m != nil {
			want[f] = append(want[f], m[n]...)
		}
	}
	vpAssert(len(got) == len(want) || vpCountNonEmpty(got) == vpCountNonEmpty(want), tag+": set of fields delivered")
	for f, ts := range want {
		vpAssert(vpStrsEq(got[f], ts), tag+": doc value terms")
	}
	for f, ts := range got {
		vpAssert(vpStrsEq(ts, want[f]), tag+": nothing but the document's terms")
	}
}

func vpCountNonEmpty(m map[string][]string) int {
	n := 0
	for _, v := range m {
		if len(v) > 0 {
			n++
		}
	}
	return n
}

// C07 (a): small batches, any field sub-list, any visiting order of length 3, built / loaded / merged.
func vpH_C07_dv() {
	nd := 2
	if vpThorough() {
		nd = 3
	}
	var docs []*vpDoc
	for i := 0; i < nd; i++ {
		docs = append(docs, vpDvDoc("d", i))
	}
	seg := vpBuild(docs, 1025)
	held := docs
	switch vpChoice("variant", 5) {
	case 1:
		seg = vpLoad(vpPersist(seg))
	case 3, 4:
		// merge with a segment whose field list differs (field ids are remapped):
		// it lacks "a" and "b", has doc values in "e" and an extra leading field "aa"
		other := []*vpDoc{{fields: []*vpField{
			{name: "aa", length: 1, terms: []*vpTerm{{term: []byte("k"), freq: 1}}},
			{name: "e", dv: true, length: 1, terms: []*vpTerm{{term: []byte("n"), freq: 1}}},
		}}}
		so := vpBuild(other, 2)
		if vpChoice("other-first", 2) == 1 {
			mb, _ := vpMergeBytes([]*Segment{so, seg}, []*roaring.Bitmap{nil, nil}, 1025)
			seg = vpLoad(mb)
			held = append(append([]*vpDoc(nil), other...), docs...)
		} else {
			mb, _ := vpMergeBytes([]*Segment{seg, so}, []*roaring.Bitmap{nil, nil}, 1025)
			seg = vpLoad(mb)
			held = append(append([]*vpDoc(nil), docs...), other...)
		}
		vpReach("C07 merged with differing field lists")
	case 2:
		dr := roaring.New()
		dr.Add(0)
		mb, _ := vpMergeBytes([]*Segment{seg, seg}, []*roaring.Bitmap{dr, nil}, 1025)
		seg = vpLoad(mb)
		held = append(append([]*vpDoc(nil), docs[1:]...), docs...)
	}
	exp := vpBuildExpect(held, vpFieldNames(held))
	fields := vpDvFieldLists[vpChoice("fields", len(vpDvFieldLists))]
	r, err := seg.DocumentValueReader(fields)
	vpMust(err, "DocumentValueReader")
	cnt := len(held)
	steps := 3
	if len(held) > len(docs) && !vpThorough() {
		steps = 2 // merged variants hold more documents: two visits in the quick tier
	}
	for step := 0; step < steps-1; step++ { // the last visit is the symbolic one below
		n := vpChoice("visit", cnt+1) // cnt = beyond the last document
		vpDvVisit("dv", r, uint64(n), fields, exp)
	}
	// one more visit whose document number is symbolic over the documents of the
	// segment (the property speaks of documents of the segment; a number >= Count
	// whose 1024-document chunk does not exist makes the reader index past its
	// chunk table - observed, outside the statement, see DESIGN 4)
	if cnt > 0 {
		ns := vpRange("visit.sym", 0, uint64(cnt-1))
		for k := 0; k < cnt; k++ {
			if ns == uint64(k) {
				vpDvVisit("dv (symbolic n)", r, uint64(k), fields, exp)
				break
			}
		}
	}
	vpReach("C07 dv end")
}

// C07 (b): the 1024-document chunk boundary through the real builder: a
// segment of 2050 (quick: 1030) documents of which a chosen subset of
// {5,1023,1024,1025,2047,2049} carries doc values; one reader visits them in
// orders that cross the boundaries repeatedly.
func vpH_C07_chunks() {
	// 2050 documents = three 1024-document chunks: with the subset {5, 2049}
	// (or {2049} alone) the field skips a whole chunk
	total := 2050
	cand := []int{5, 1023, 1024, 2049}
	if vpThorough() {
		total = 2050
		cand = []int{5, 1023, 1024, 1025, 2047, 2049}
	}
	sub := vpSubset("carriers", len(cand), false)
	carrier := map[int]int{}
	for i, c := range cand {
		if sub[i] {
			carrier[c] = i
		}
	}
	var docs []*vpDoc
	for d := 0; d < total; d++ {
		doc := &vpDoc{}
		if i, ok := carrier[d]; ok {
			ts := []string{"x"}
			if i%2 == 1 {
				ts = []string{"y\xfe", "x"}
			}
			f := &vpField{name: "b", dv: true, length: len(ts)}
			for _, t := range ts {
				f.terms = append(f.terms, &vpTerm{term: []byte(t), freq: 1})
			}
			doc.fields = append(doc.fields, f)
		}
		docs = append(docs, doc)
	}
	seg := vpBuild(docs, 1025)
	shift := 0
	if vpChoice("merged-behind-a-small-segment", 2) == 1 {
		// merged behind a 2-document segment: every document number moves up by 2
		// (the merge walks all doc-value chunks of the large input, empty ones included)
		front := []*vpDoc{{fields: []*vpField{{name: "b", dv: true, length: 1, terms: []*vpTerm{{term: []byte("x"), freq: 1}}}}}, {}}
		mb, _ := vpMergeBytes([]*Segment{vpBuild(front, 1025), seg}, []*roaring.Bitmap{nil, nil}, 1025)
		seg = vpLoad(mb)
		shift = 2
	} else {
		seg = vpLoadedVariant(seg)
	}
	exp := &vpExpect{dv: map[string]map[uint64][]string{"b": {}}}
	for d, i := range carrier {
		if i%2 == 1 {
			exp.dv["b"][uint64(d+shift)] = []string{"x", "y\xfe"}
		} else {
			exp.dv["b"][uint64(d+shift)] = []string{"x"}
		}
	}
	if shift > 0 {
		exp.dv["b"][0] = []string{"x"}
	}
	r, err := seg.DocumentValueReader([]string{"b"})
	vpMust(err, "DocumentValueReader")
	orders := [][]int{{5, 1023, 1024, 2049, 1029}, {2049, 1024, 1023, 5, 1024}, {1024, 5, 2049, 6, 1023},
		// back and forth between a chunk and its (possibly empty) neighbour
		{5, 1030, 5, 2049, 1500, 2049, 1023}}
	if vpThorough() {
		orders = [][]int{{5, 1023, 1024, 1025, 2047, 2049}, {2049, 2047, 1025, 1024, 1023, 5}, {1024, 2049, 5, 2047, 1023, 1025, 7, 2048}}
	}
	for _, n := range orders[vpChoice("order", len(orders))] {
		vpDvVisit("chunks", r, uint64(n+shift), []string{"b"}, exp)
	}
	vpReach("C07 chunks end")
}

// C07 with long doc-value terms: documents whose terms in a doc-value field
// total 0 / 10 / 31..34 / 70 / 300 bytes next to each other; built, loaded, merged.
func vpH_C07_longterms() {
	mkTerm := func(n int, c byte) []byte {
		b := make([]byte, n)
		for i := range b {
			b[i] = c
		}
		return b
	}
	sizes := [][]int{{31, 5}, {32, 1}, {33, 7}, {34, 2}, {70, 3}, {300, 1}, {10, 10}}[vpChoice("sizes", 7)]
	var docs []*vpDoc
	for d := 0; d < 4; d++ {
		n := sizes[d%2]
		doc := &vpDoc{}
		if !(d == 3 && vpChoice("last-doc-without-values", 2) == 1) {
			t1 := mkTerm(n/2, byte('a'+d))
			t2 := mkTerm(n-n/2-1, byte('m'+d))
			f := &vpField{name: "b", dv: true, length: 2}
			if len(t2) > 0 {
				f.terms = []*vpTerm{{term: t2, freq: 1}, {term: t1, freq: 1}}
			} else {
				f.terms = []*vpTerm{{term: t1, freq: 1}}
			}
			doc.fields = append(doc.fields, f)
		}
		docs = append(docs, doc)
	}
	seg := vpBuild(docs, 1025)
	switch vpChoice("kind", 3) {
	case 1:
		seg = vpLoad(vpPersist(seg))
	case 2:
		mb, _ := vpMergeBytes([]*Segment{seg}, []*roaring.Bitmap{nil}, 1025)
		seg = vpLoad(mb)
	}
	exp := vpBuildExpect(docs, nil)
	r, err := seg.DocumentValueReader([]string{"b"})
	vpMust(err, "DocumentValueReader")
	for _, n := range []uint64{1, 0, 2, 3, 1} {
		vpDvVisit("long terms", r, n, []string{"b"}, exp)
	}
	vpReach("C07 longterms end")
}
