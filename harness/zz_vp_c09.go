//go:build verif

package ice

import (
	"bytes"
	"sync"

	"github.com/RoaringBitmap/roaring"
	segment "github.com/blugelabs/bluge_segment_api"
)

func init() {
	vpRegister("vpH_C09_frame", vpH_C09_frame)
	vpRegister("vpH_C09_reentrant", vpH_C09_reentrant)
	vpRegister("vpH_C09_bigframe", vpH_C09_bigframe)
}

type vpTermRef struct{ field, term string }

func (t vpTermRef) Field() string { return t.field }
func (t vpTermRef) Term() []byte  { return []byte(t.term) }

var vpReadOpNames = []string{"Dictionary+Iterator", "PostingsList+Iterator", "VisitStoredFields", "DocumentValueReader",
	"DocsMatchingTerms", "CollectionStats+Fields+Count", "WriteTo", "merge-input", "recycled list+iterator (absent term, then present term)", "recycled iterator (term without locations, then term with locations)", "Close() of an empty list's iterator, then fresh iterators"}

// vpReadOp performs read operation k on seg and returns a digest of what it observed.
func vpReadOp(k int, seg *Segment) []byte {
	var dig []byte
	switch k {
	case 0:
		d, err := seg.Dictionary("a")
		vpMust(err, "Dictionary")
		it := d.Iterator(nil, nil, nil)
		for {
			e, err := it.Next()
			vpMust(err, "DictionaryIterator.Next")
			if e == nil {
				break
			}
			dig = append(dig, e.Term()...)
			dig = append(dig, byte(e.Count()))
		}
	case 1:
		d, err := seg.Dictionary("a")
		vpMust(err, "Dictionary")
		pl, err := d.PostingsList([]byte("x"), nil, nil)
		vpMust(err, "PostingsList")
		it, err := pl.Iterator(true, true, true, nil)
		vpMust(err, "Iterator")
		p, err := it.Next()
		vpMust(err, "Next")
		for p != nil {
			dig = append(dig, byte(p.Number()), byte(p.Frequency()), byte(len(p.Locations())))
			p, err = it.Advance(p.Number() + 1)
			vpMust(err, "Advance")
		}
	case 2:
		for n := uint64(0); n < seg.Count(); n++ {
			err := seg.VisitStoredFields(n, func(field string, value []byte) bool {
				dig = append(dig, field...)
				dig = append(dig, value...)
				return true
			})
			vpMust(err, "VisitStoredFields")
		}
	case 3:
		r, err := seg.DocumentValueReader([]string{"b"})
		vpMust(err, "DocumentValueReader")
		for n := uint64(0); n < seg.Count(); n++ {
			err := r.VisitDocumentValues(n, func(field string, term []byte) {
				dig = append(dig, field...)
				dig = append(dig, term...)
			})
			vpMust(err, "VisitDocumentValues")
		}
	case 4:
		bm, err := seg.DocsMatchingTerms([]segment.Term{vpTermRef{"a", "x"}, vpTermRef{"b", "x"}})
		vpMust(err, "DocsMatchingTerms")
		for _, v := range bm.ToArray() {
			dig = append(dig, byte(v))
		}
		// and a list over one field only (what a delete-by-id batch looks like)
		bm1, err := seg.DocsMatchingTerms([]segment.Term{vpTermRef{"a", "x"}})
		vpMust(err, "DocsMatchingTerms")
		dig = append(dig, byte(bm1.GetCardinality()))
	case 5:
		st, err := seg.CollectionStats("a")
		vpMust(err, "CollectionStats")
		dig = append(dig, byte(st.DocumentCount()), byte(seg.Count()), byte(len(seg.Fields())))
	case 6:
		var buf bytes.Buffer
		_, err := seg.WriteTo(&buf, nil)
		vpMust(err, "WriteTo")
		dig = append(dig, byte(buf.Len()), byte(buf.Len()>>8))
	case 7:
		var buf bytes.Buffer
		dr := roaring.New()
		dr.Add(0)
		_, _, err := mergeSegmentBasesWriter([]*Segment{seg, seg}, []*roaring.Bitmap{dr, nil}, &buf, 1025, nil)
		vpMust(err, "merge")
		dig = append(dig, byte(buf.Len()), byte(buf.Len()>>8))
	case 8:
		// the term-searcher pattern: the postings list and the iterator obtained for
		// one term are handed back as the preallocated objects of the next lookup;
		// the first term is absent (known field / unknown field): its list and
		// iterator are the package's shared empty objects
		for _, fld := range []string{"a", "nofield"} {
			d, err := seg.Dictionary(fld)
			vpMust(err, "Dictionary")
			pl, err := d.PostingsList([]byte("absent"), nil, nil)
			vpMust(err, "PostingsList")
			it, err := pl.Iterator(true, true, true, nil)
			vpMust(err, "Iterator")
			p, err := it.Next()
			vpMust(err, "Next")
			dig = append(dig, byte(pl.Count()))
			if p != nil {
				dig = append(dig, 0xee)
			}
			d2, err := seg.Dictionary("a")
			vpMust(err, "Dictionary")
			pl2, err := d2.PostingsList([]byte("x"), nil, pl)
			vpMust(err, "PostingsList")
			it2, err := pl2.Iterator(true, true, true, it)
			vpMust(err, "Iterator")
			for {
				p, err := it2.Next()
				vpMust(err, "Next")
				if p == nil {
					break
				}
				dig = append(dig, byte(p.Number()), byte(p.Frequency()))
			}
			// an absent term looked up afterwards is still empty
			pl3, err := d.PostingsList([]byte("absent"), nil, nil)
			vpMust(err, "PostingsList")
			it3, err := pl3.Iterator(true, true, true, nil)
			vpMust(err, "Iterator")
			p3, err := it3.Next()
			vpMust(err, "Next")
			dig = append(dig, byte(pl3.Count()))
			if p3 != nil {
				dig = append(dig, 0xef)
			}
		}
	case 9:
		// an iterator opened with locations on a general-encoded term that has
		// none, then handed back as prealloc for a term that has locations
		d, err := seg.Dictionary("b")
		vpMust(err, "Dictionary")
		pl, err := d.PostingsList([]byte("x"), nil, nil)
		vpMust(err, "PostingsList")
		it, err := pl.Iterator(true, true, true, nil)
		vpMust(err, "Iterator")
		p, err := it.Next()
		vpMust(err, "Next")
		if p != nil {
			dig = append(dig, byte(p.Number()), byte(len(p.Locations())))
		}
		da, err := seg.Dictionary("a")
		vpMust(err, "Dictionary")
		pla, err := da.PostingsList([]byte("x"), nil, nil)
		vpMust(err, "PostingsList")
		ita, err := pla.Iterator(true, true, true, it)
		vpMust(err, "Iterator")
		for {
			p, err := ita.Next()
			vpMust(err, "Next")
			if p == nil {
				break
			}
			dig = append(dig, byte(p.Number()), byte(p.Frequency()), byte(len(p.Locations())))
			for _, l := range p.Locations() {
				dig = append(dig, byte(l.Pos()), byte(l.Start()), byte(l.End()))
			}
		}
	case 10:
		// a reader closes the iterator it got for an absent term, then opens fresh
		// iterators (no prealloc) on a present and on an absent term
		d, err := seg.Dictionary("a")
		vpMust(err, "Dictionary")
		pl, err := d.PostingsList([]byte("absent"), nil, nil)
		vpMust(err, "PostingsList")
		it, err := pl.Iterator(true, true, true, nil)
		vpMust(err, "Iterator")
		vpMust(it.Close(), "Close")
		plx, err := d.PostingsList([]byte("x"), nil, nil)
		vpMust(err, "PostingsList")
		itx, err := plx.Iterator(true, true, true, nil)
		vpMust(err, "Iterator")
		p, err := itx.Next()
		vpMust(err, "Next")
		if p != nil {
			dig = append(dig, byte(p.Number()), byte(p.Frequency()))
		}
		pl2, err := d.PostingsList([]byte("absent"), nil, nil)
		vpMust(err, "PostingsList")
		it2, err := pl2.Iterator(true, true, true, nil)
		vpMust(err, "Iterator")
		p2, err := it2.Next()
		vpMust(err, "Next")
		vpAssert(p2 == nil && pl2.Count() == 0, "an absent term has no postings (after iterators were closed and reopened)")
		vpMust(itx.Close(), "Close")
		vpMust(it2.Close(), "Close")
	}
	return dig
}

func vpC09Docs(g *vpGen) []*vpDoc {
	return []*vpDoc{g.doc(2, 0), g.doc(5, 1), g.doc(9, 2), g.doc(3, 3)}
}

// C09, frame condition: no read API (and no merge reading the segment) writes
// to memory that was reachable from the segment or from ice's package-level
// variables when the call started, except under the segment mutex / sync.Once
// or into objects obtained from a sync.Pool or allocated during the call.
// Natively the same operation pair runs in two goroutines (for -race).
func vpH_C09_frame() {
	g := vpNewGen(0)
	docs := vpC09Docs(g)
	seg := vpBuild(docs, []uint32{1025, 2}[vpChoice("mode", 2)])
	if vpChoice("loaded", 2) == 1 {
		seg = vpLoad(vpPersist(seg))
	}
	warm := vpChoice("warm", 2) == 1
	if warm {
		// caches (FSTs, stored block) already populated by an earlier reader
		vpReadOp(0, seg)
		vpReadOp(2, seg)
		_, _ = seg.DocsMatchingTerms([]segment.Term{vpTermRef{"a", "x"}})
	}
	k := vpChoice("op", len(vpReadOpNames))
	vpNote("op:" + vpReadOpNames[k])
	vpPoolReuse(true) // objects put into a sync.Pool come back on the next Get
	if vpSymbolic() {
		// both the first (cold) and the repeated execution are tracked
		vpWriteSetBegin([]interface{}{seg})
		solo := vpReadOp(k, seg)
		again := vpReadOp(k, seg)
		writes := vpWriteSetEnd()
		vpAssert(bytes.Equal(solo, again), "repeated read observes the same")
		for _, w := range writes {
			vpNote("write:" + w)
		}
		if len(writes) > 0 {
			vpAssert(false, "frame: unsynchronised write to shared segment state by "+vpReadOpNames[k])
		}
	} else {
		k2 := k // the same operation in two goroutines
		// the solo reference comes from an identical second segment, so that the
		// two goroutines meet the segment under test in the chosen (cold) state
		ref := vpLoad(vpPersist(seg))
		solo1, solo2 := vpReadOp(k, ref), vpReadOp(k2, ref)
		var wg sync.WaitGroup
		var r1, r2 []byte
		wg.Add(2)
		go func() { defer wg.Done(); r1 = vpReadOp(k, seg) }()
		go func() { defer wg.Done(); r2 = vpReadOp(k2, seg) }()
		wg.Wait()
		vpAssert(bytes.Equal(solo1, r1) && bytes.Equal(solo2, r2), "concurrent readers observe what they observe alone")
	}
	vpReach("C09 frame end")
}

// C09, re-entrancy: a stored-field / doc-value visitor calls another read API
// on the same segment; the outer observation must equal the solo one.
func vpH_C09_reentrant() {
	total := []int{3, 130, 300}[vpChoice("blocks", 3)]
	if total > 3 {
		vpNote("feat:two-blocks")
	}
	var docs []*vpDoc
	for d := 0; d < total; d++ {
		doc := &vpDoc{}
		if d == 0 || d == total-1 || d == 130 || d == 260 {
			for j := 0; j < 2; j++ {
				doc.fields = append(doc.fields, &vpField{name: "s", store: true, dv: true, value: []byte{byte('A' + d%7), byte('0' + j)}, length: 1,
					terms: []*vpTerm{{term: []byte{byte('t'), byte('0' + j), byte('a' + d%7)}, freq: 1}}})
			}
		}
		docs = append(docs, doc)
	}
	seg := vpBuild(docs, 1025)
	if vpChoice("loaded", 2) == 1 {
		seg = vpLoad(vpPersist(seg))
	}
	last := uint64(total - 1)
	inner := vpChoice("inner", 5)
	vpNote([]string{"inner:VisitStoredFields(other)", "inner:VisitStoredFields(same)", "inner:Dictionary", "inner:DocumentValueReader", "inner:VisitStoredFields(two other blocks)"}[inner])
	innerOp := func() {
		switch inner {
		case 0:
			_ = seg.VisitStoredFields(last, func(string, []byte) bool { return true })
		case 1:
			_ = seg.VisitStoredFields(0, func(string, []byte) bool { return true })
		case 2:
			vpReadOp(0, seg)
		case 3:
			vpReadOp(3, seg)
		case 4:
			// two more stored blocks are read while the outer visitor is still inside its callback
			for _, n := range []uint64{130, 260} {
				if n < uint64(total) {
					_ = seg.VisitStoredFields(n, func(string, []byte) bool { return true })
				}
			}
		}
	}
	vpPoolReuse(true) // a visit context put back into the pool is handed to the next visit
	var solo, nested []byte
	err := seg.VisitStoredFields(0, func(field string, value []byte) bool {
		solo = append(solo, value...)
		return true
	})
	vpMust(err, "VisitStoredFields")
	err = seg.VisitStoredFields(0, func(field string, value []byte) bool {
		innerOp()
		nested = append(nested, value...)
		return true
	})
	vpMust(err, "VisitStoredFields (re-entered)")
	vpAssert(bytes.Equal(solo, nested), "re-entered stored-field visit observes what it observes alone")
	vpReach("C09 reentrant end")
}

// vpBigReadOp: read operations that cross the 1024-document doc-value chunk
// and the 128-document stored block boundaries of a large segment.
var vpBigReadOpNames = []string{"DocumentValueReader across chunks", "VisitStoredFields across blocks", "PostingsList+Advance across chunks", "merge-input (large)"}

func vpBigReadOp(k int, seg *Segment) []byte {
	var dig []byte
	switch k {
	case 0:
		r, err := seg.DocumentValueReader([]string{"b"})
		vpMust(err, "DocumentValueReader")
		for _, n := range []uint64{2, 1026, 3, 1027, 1026, 0} {
			err := r.VisitDocumentValues(n, func(field string, term []byte) {
				dig = append(dig, field...)
				dig = append(dig, term...)
			})
			vpMust(err, "VisitDocumentValues")
		}
	case 1:
		for _, n := range []uint64{0, 127, 128, 1029, 1} {
			err := seg.VisitStoredFields(n, func(field string, value []byte) bool {
				dig = append(dig, value...)
				return true
			})
			vpMust(err, "VisitStoredFields")
		}
	case 2:
		d, err := seg.Dictionary("b")
		vpMust(err, "Dictionary")
		pl, err := d.PostingsList([]byte("all"), nil, nil)
		vpMust(err, "PostingsList")
		it, err := pl.Iterator(true, true, true, nil)
		vpMust(err, "Iterator")
		for _, t := range []uint64{1, 600, 1025} {
			p, err := it.Advance(t)
			vpMust(err, "Advance")
			if p != nil {
				dig = append(dig, byte(p.Number()), byte(p.Number()>>8), byte(p.Frequency()))
			}
		}
	case 3:
		var buf bytes.Buffer
		dr := roaring.New()
		dr.Add(0)
		_, _, err := mergeSegmentBasesWriter([]*Segment{seg}, []*roaring.Bitmap{dr}, &buf, 1025, nil)
		vpMust(err, "merge")
		dig = append(dig, byte(buf.Len()), byte(buf.Len()>>8))
	}
	return dig
}

// C09, frame condition on a segment of 1030 documents (two doc-value chunks,
// nine stored blocks, a postings list with two chunks): as vpH_C09_frame.
func vpH_C09_bigframe() {
	var docs []*vpDoc
	for d := 0; d < 1030; d++ {
		f := &vpField{name: "b", dv: true, store: true, value: []byte{byte('A' + d%26)}, length: 1 + d%3,
			terms: []*vpTerm{{term: []byte("all"), freq: 1 + d%2}, {term: []byte{'t', byte('a' + d%7)}, freq: 1}}}
		docs = append(docs, &vpDoc{fields: []*vpField{f}})
	}
	seg := vpBuild(docs, 1025)
	if vpChoice("loaded", 2) == 1 {
		seg = vpLoad(vpPersist(seg))
	}
	if vpChoice("warm", 2) == 1 {
		vpBigReadOp(0, seg)
	}
	k := vpChoice("op", len(vpBigReadOpNames))
	vpNote("op:" + vpBigReadOpNames[k])
	if vpSymbolic() {
		vpWriteSetBegin([]interface{}{seg})
		solo := vpBigReadOp(k, seg)
		again := vpBigReadOp(k, seg)
		writes := vpWriteSetEnd()
		vpAssert(bytes.Equal(solo, again), "repeated read observes the same")
		for _, w := range writes {
			vpNote("write:" + w)
		}
		if len(writes) > 0 {
			vpAssert(false, "frame: unsynchronised write to shared segment state by "+vpBigReadOpNames[k])
		}
	} else {
		ref := vpLoad(vpPersist(seg))
		solo := vpBigReadOp(k, ref)
		var wg sync.WaitGroup
		var r1, r2 []byte
		wg.Add(2)
		go func() { defer wg.Done(); r1 = vpBigReadOp(k, seg) }()
		go func() { defer wg.Done(); r2 = vpBigReadOp(k, seg) }()
		wg.Wait()
		vpAssert(bytes.Equal(solo, r1) && bytes.Equal(solo, r2), "concurrent readers observe what they observe alone")
	}
	vpReach("C09 bigframe end")
}
