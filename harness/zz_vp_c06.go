//go:build verif

package ice

import (
	"github.com/RoaringBitmap/roaring"
)

func init() {
	vpRegister("vpH_C06_visit", vpH_C06_visit)
	vpRegister("vpH_C06_blocks", vpH_C06_blocks)
	vpRegister("vpH_C06_lookahead", vpH_C06_lookahead)
	vpRegister("vpH_C06_twosegs", vpH_C06_twosegs)
}

// vpVisitCheck visits document n, stopping after `stop` values (stop<0: never),
// and asserts exactly the expected prefix is delivered.
func vpVisitCheck(tag string, seg *Segment, n uint64, want []vpXStored, stop int) {
	var got []vpXStored
	calls := 0
	err := seg.VisitStoredFields(n, func(field string, value []byte) bool {
		calls++
		got = append(got, vpXStored{field, append([]byte(nil), value...)})
		return stop < 0 || calls <= stop
	})
	vpMust(err, "VisitStoredFields")
	limit := len(want)
	if stop >= 0 && stop+1 < limit {
		limit = stop + 1
	}
	vpAssert(len(got) == limit, tag+": number of stored values delivered")
	if len(got) != limit {
		return
	}
	for i := range got {
		vpAssert(got[i].field == want[i].field, tag+": stored field name/order")
		vpAssert(vpBytesEq(got[i].value, want[i].value), tag+": stored value bytes")
	}
}

// vpStoredVariant produces the segment under test from a batch: built, loaded,
// merged through the block-copy path, or merged through the re-encode path.
// It returns the segment and the documents it must hold.
func vpStoredVariant(g *vpGen, docs []*vpDoc, mode uint32) (*Segment, []*vpDoc) {
	seg := vpBuild(docs, mode)
	switch vpChoice("variant", 5) {
	case 0:
		vpReach("C06 built")
		return seg, docs
	case 4:
		// three inputs whose field lists share a prefix only: an _id-only segment,
		// the batch, and a segment with another field sorting elsewhere; nothing
		// dropped in the batch (it is eligible for the block-copy path)
		vpAssume(len(docs) > 0)
		idOnly := []*vpDoc{{fields: []*vpField{{name: "_id", store: true, value: []byte("i0"), length: 1, terms: []*vpTerm{{term: []byte("i0"), freq: 1}}}}}}
		third := []*vpDoc{{fields: []*vpField{{name: "_id", store: true, value: []byte("t0"), length: 1, terms: []*vpTerm{{term: []byte("t0"), freq: 1}}},
			{name: "aa", store: true, value: []byte("w"), length: 1, terms: []*vpTerm{{term: []byte("k"), freq: 1}}}}}}
		mb, _ := vpMergeBytes([]*Segment{vpBuild(idOnly, 1025), seg, vpBuild(third, 1025)}, []*roaring.Bitmap{nil, nil, nil}, mode)
		vpReach("C06 merged from three segments with prefix field lists")
		return vpLoad(mb), append(append([]*vpDoc{idOnly[0]}, docs...), third[0])
	case 1:
		vpReach("C06 loaded")
		return vpLoad(vpPersist(seg)), docs
	case 2:
		// identical field lists, nothing dropped: stored blocks are copied
		vpAssume(len(docs) > 0)
		mb, _ := vpMergeBytes([]*Segment{seg, seg}, []*roaring.Bitmap{nil, roaring.New()}, mode)
		vpReach("C06 merged copy")
		return vpLoad(mb), append(append([]*vpDoc(nil), docs...), docs...)
	default:
		// a second segment with another field list and a deletion: re-encode path
		vpAssume(len(docs) > 0)
		other := []*vpDoc{{fields: []*vpField{{name: "zz", store: true, value: []byte("o"), length: 1, terms: []*vpTerm{{term: []byte("o"), freq: 1}}}}}, {}}
		so := vpBuild(other, 1025)
		dr := roaring.New()
		dr.Add(1)
		mb, _ := vpMergeBytes([]*Segment{so, seg}, []*roaring.Bitmap{dr, nil}, mode)
		vpReach("C06 merged re-encode")
		return vpLoad(mb), append([]*vpDoc{other[0]}, docs...)
	}
}

// C06 (a): any batch with 0..2 stored values per document, visits in any order, early stop, n >= Count.
func vpH_C06_visit() {
	g := vpNewGen(0)
	max := 2
	if vpThorough() {
		max = 3
	}
	docs := g.batch("b", 0, max, []int{0, 1, 4, 5, 6, 9})
	g.done()
	seg, held := vpStoredVariant(g, docs, []uint32{1025, 1}[vpChoice("mode", 2)])
	exp := vpBuildExpect(held, vpFieldNames(held))
	cnt := len(held)
	vpAssert(seg.Count() == uint64(cnt), "Count")
	// one visit whose document number is symbolic (every uint64 < 2^62: the
	// solver splits it into the documents of the segment and "beyond Count"),
	// with any stop point; then a second visit of a neighbouring document through
	// the same segment (block cache state)
	ns := vpRange("visit.sym", 0, 1<<62)
	stop := vpChoice("stop", 3) - 1
	var got []vpXStored
	calls := 0
	err := seg.VisitStoredFields(ns, func(field string, value []byte) bool {
		calls++
		got = append(got, vpXStored{field, append([]byte(nil), value...)})
		return stop < 0 || calls <= stop
	})
	vpMust(err, "VisitStoredFields(symbolic n)")
	n := cnt // concrete image of ns: cnt = beyond the last document
	for k := 0; k < cnt; k++ {
		if ns == uint64(k) {
			n = k
			break
		}
	}
	var want []vpXStored
	if n < cnt {
		want = exp.stored[n]
	} else {
		vpReach("C06 symbolic visit beyond Count")
	}
	limit := len(want)
	if stop >= 0 && stop+1 < limit {
		limit = stop + 1
	}
	vpAssert(len(got) == limit, "visit: number of stored values delivered")
	if len(got) == limit {
		for i := range got {
			vpAssert(got[i].field == want[i].field, "visit: stored field name/order")
			vpAssert(vpBytesEq(got[i].value, want[i].value), "visit: stored value bytes")
		}
	}
	n2 := 0
	if cnt > 0 {
		n2 = (n + 1) % cnt
	}
	want = nil
	if n2 < cnt {
		want = exp.stored[n2]
	}
	vpVisitCheck("second visit", seg, uint64(n2), want, -1)
	vpReach("C06 visit end")
}

// vpStoredDoc makes a document with the given stored value lengths in field "s" (bytes symbolic).
func vpStoredDoc(lens []int) *vpDoc {
	d := &vpDoc{}
	for _, l := range lens {
		v := make([]byte, l)
		for i := range v {
			v[i] = vpU8("sv")
		}
		d.fields = append(d.fields, &vpField{name: "s", store: true, value: v, length: 1,
			terms: []*vpTerm{{term: []byte("t"), freq: 1}}})
	}
	return d
}

var vpLenShapes = [][]int{nil, {0}, {2}, {1, 0}}

// C06 (b): the 128-document block boundary: 130 documents, 126..129 carry
// records of chosen shapes, all others the 2-byte empty record.
func vpH_C06_blocks() {
	var docs []*vpDoc
	for d := 0; d < 130; d++ {
		if d >= 126 {
			docs = append(docs, vpStoredDoc(vpLenShapes[vpChoice("shape", len(vpLenShapes))]))
		} else {
			docs = append(docs, &vpDoc{})
		}
	}
	seg := vpBuild(docs, 1025)
	held := docs
	variant := vpChoice("variant", 5)
	switch variant {
	case 1:
		seg = vpLoad(vpPersist(seg))
	case 2:
		mb, _ := vpMergeBytes([]*Segment{seg}, []*roaring.Bitmap{nil}, 1025)
		seg = vpLoad(mb)
	case 3:
		vpNote("feat:file-backed")
		seg, _ = vpLoadFile(vpPersist(seg))
	}
	exp := vpBuildExpect(held[126:], []string{"s"})
	if variant == 4 {
		// re-encode path across the block boundary: document 0 is deleted, every
		// later document moves down by one (old 128 becomes new 127)
		dr := roaring.New()
		dr.Add(0)
		mb, _ := vpMergeBytes([]*Segment{seg}, []*roaring.Bitmap{dr}, 1025)
		m := vpLoad(mb)
		for _, old := range []int{128, 126, 129, 127} {
			vpVisitCheck("merged without document 0", m, uint64(old-1), exp.stored[old-126], -1)
		}
		vpVisitCheck("merged without document 0", m, 0, nil, -1)
		vpReach("C06 blocks end")
		return
	}
	order := [][]int{{126, 127, 128, 129}, {129, 128, 127, 126}, {127, 128, 0, 129}}[vpChoice("order", 3)]
	for _, n := range order {
		var want []vpXStored
		if n >= 126 {
			want = exp.stored[n-126]
		}
		vpVisitCheck("blocks", seg, uint64(n), want, -1)
	}
	vpVisitCheck("blocks beyond", seg, 130, nil, -1)
	vpReach("C06 blocks end")
}

// C06 (c): two blocks of different uncompressed sizes; the last, shortest
// record of a block is read after the other block was cached.
func vpH_C06_lookahead() {
	nl, nd := 3, 24
	if vpThorough() {
		nl, nd = 6, 48
	}
	l0 := vpChoice("len0", nl)
	delta := vpChoice("delta", nd)
	var docs []*vpDoc
	for d := 0; d < 256; d++ {
		switch d {
		case 5:
			docs = append(docs, vpStoredDoc([]int{l0}))
		case 200:
			docs = append(docs, vpStoredDoc([]int{l0 + delta}))
		default:
			docs = append(docs, &vpDoc{})
		}
	}
	vpNote("feat:two-blocks")
	seg := vpBuild(docs, 1025)
	seg = vpLoadedVariant(seg)
	e5 := vpBuildExpect(docs[5:6], []string{"s"}).stored[0]
	e200 := vpBuildExpect(docs[200:201], []string{"s"}).stored[0]
	if vpChoice("order", 2) == 0 {
		vpVisitCheck("first of block 0", seg, 0, nil, -1)
		vpVisitCheck("last of block 1", seg, 255, nil, -1)
		vpVisitCheck("doc 200", seg, 200, e200, -1)
		vpVisitCheck("last of block 0", seg, 127, nil, -1)
	} else {
		vpVisitCheck("last of block 1", seg, 255, nil, -1)
		vpVisitCheck("last of block 0", seg, 127, nil, -1)
		vpVisitCheck("doc 5", seg, 5, e5, -1)
		vpVisitCheck("last of block 1 again", seg, 255, nil, -1)
	}
	vpReach("C06 lookahead end")
}

// C06 (d): two segments of the same shape (so their stored blocks have the
// same compressed extent) but different stored values, read alternately in
// one goroutine (the pooled visit context is recycled), and merged through the
// re-encode path (one deletion in each input, one context for all inputs):
// every document returns its own values, never the other segment's.
func vpH_C06_twosegs() {
	g := vpNewGen(0)
	n := 2
	var ks []int
	for i := 0; i < n; i++ {
		ks = append(ks, []int{4, 5, 9}[vpChoice("template", 3)])
	}
	var a, b []*vpDoc
	for i, k := range ks {
		a = append(a, g.doc(k, i))
	}
	for i, k := range ks {
		b = append(b, g.doc(k, i))
	}
	g.done()
	mode := uint32(1025)
	sa, sb := vpBuild(a, mode), vpBuild(b, mode)
	if vpChoice("loaded", 2) == 1 {
		sa, sb = vpLoad(vpPersist(sa)), vpLoad(vpPersist(sb))
	}
	ea, eb := vpBuildExpect(a, vpFieldNames(a)), vpBuildExpect(b, vpFieldNames(b))
	vpPoolReuse(true)
	if vpChoice("how", 2) == 0 {
		order := [][2]int{{0, 0}, {1, 0}, {0, 1}, {1, 1}, {0, 0}}
		if vpChoice("order", 2) == 1 {
			order = [][2]int{{1, 1}, {0, 1}, {1, 0}, {0, 0}}
		}
		for _, o := range order {
			if o[0] == 0 {
				vpVisitCheck("segment A", sa, uint64(o[1]), ea.stored[o[1]], -1)
			} else {
				vpVisitCheck("segment B", sb, uint64(o[1]), eb.stored[o[1]], -1)
			}
		}
		vpReach("C06 two segments alternately")
	} else {
		da, db := roaring.New(), roaring.New()
		da.Add(uint32(vpChoice("drop-a", 2)))
		db.Add(uint32(vpChoice("drop-b", 2)))
		mb, _ := vpMergeBytes([]*Segment{sa, sb}, []*roaring.Bitmap{da, db}, mode)
		m := vpLoad(mb)
		vpAssert(m.Count() == 2, "Count")
		wa, wb := ea.stored[1], eb.stored[1]
		if da.Contains(1) {
			wa = ea.stored[0]
		}
		if db.Contains(1) {
			wb = eb.stored[0]
		}
		vpVisitCheck("merged, from A", m, 0, wa, -1)
		vpVisitCheck("merged, from B", m, 1, wb, -1)
		vpReach("C06 two segments merged")
	}
	vpPoolReuse(false)
	vpReach("C06 twosegs end")
}
