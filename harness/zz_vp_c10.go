//go:build verif

package ice

import (
	"bytes"

	"github.com/RoaringBitmap/roaring"
	segment "github.com/blugelabs/bluge_segment_api"
	iceref "github.com/blugelabs/ice/v2/zz_vp_ref"
)

func init() {
	vpRegister("vpH_C10_consts", vpH_C10_consts)
	vpRegister("vpH_C10_chunksize", vpH_C10_chunksize)
	vpRegister("vpH_C10_footer", vpH_C10_footer)
	vpRegister("vpH_C10_kernels", vpH_C10_kernels)
	vpRegister("vpH_C10_cross", vpH_C10_cross)
	vpRegister("vpH_C10_crossmerge", vpH_C10_crossmerge)
	vpRegister("vpH_C10_blocks", vpH_C10_blocks)
}

// format constants equal those of the pinned reference
func vpH_C10_consts() {
	vpAssert(defaultDocumentChunkSize == iceref.XDefaultDocumentChunkSize, "stored block size")
	vpAssert(legacyChunkMode == iceref.XLegacyChunkMode, "legacy chunk mode")
	vpAssert(chunkModeV1 == iceref.XChunkModeV1, "chunk mode v1")
	vpAssert(defaultChunkMode == iceref.XDefaultChunkMode, "default chunk mode")
	vpAssert(footerLen == iceref.XFooterLen, "footer length")
	vpAssert(uint64(fieldNotUninverted) == uint64(iceref.XFieldNotUninverted), "fieldNotUninverted")
	vpAssert(fSTValEncodingMask == iceref.XFSTValEncodingMask && fSTValEncoding1Hit == iceref.XFSTValEncoding1Hit, "FST value tags")
	vpAssert(termNotEncoded == iceref.XTermNotEncoded, "termNotEncoded")
	vpAssert(maxDocsToScanSequentially == iceref.XMaxDocsToScan, "maxDocsToScanSequentially")
	vpAssert(Version == iceref.XVersion && Version == 2, "format version")
	vpAssert(termSeparator == iceref.XTermSeparator(), "term separator")
	vpAssert(ZSTDCompressionLevel == iceref.XZSTDLevel, "zstd level constant")
	vpReach("C10 consts end")
}

// getChunkSize agrees with the reference for every mode, cardinality and document count < 2^32.
func vpH_C10_chunksize() {
	mode := vpU32("mode")
	card := vpRange("card", 0, 1<<32-1)
	maxDocs := vpRange("maxDocs", 0, 1<<32-1)
	a, ea := getChunkSize(mode, card, maxDocs)
	b, eb := iceref.XGetChunkSize(mode, card, maxDocs)
	vpAssert((ea == nil) == (eb == nil), "getChunkSize: same modes are accepted")
	if ea == nil && eb == nil {
		vpAssert(a == b, "getChunkSize: same chunk size")
	}
	vpReach("C10 chunksize end")
}

// footer bytes written by cur equal the reference's for all field values; cross parse.
func vpH_C10_footer() {
	nd, st, fi, dv := vpU64("numDocs"), vpU64("stored"), vpU64("fields"), vpU64("dv")
	cm, crc := vpU32("chunkMode"), vpU32("crc")
	var a, b bytes.Buffer
	vpMust(persistFooter(&footer{numDocs: nd, storedIndexOffset: st, fieldsIndexOffset: fi, docValueOffset: dv, chunkMode: cm, crc: crc}, &a), "persistFooter")
	vpMust(iceref.XPersistFooter(nd, st, fi, dv, cm, crc, &b), "ref persistFooter")
	vpAssert(a.Len() == b.Len() && a.Len() == 44, "footer length")
	vpAssert(vpBytesEq(a.Bytes(), b.Bytes()), "footer bytes equal the reference's")
	// the reference parses what cur wrote, and the other way round
	rnd, rst, rfi, rdv, rcrc, rver, rcm, err := iceref.XParseFooter(segment.NewDataBytes(a.Bytes()))
	vpMust(err, "ref parseFooter of cur footer")
	f, err := parseFooter(segment.NewDataBytes(b.Bytes()))
	vpMust(err, "parseFooter of ref footer")
	ok := vpAnd(rnd == nd, vpAnd(rst == st, vpAnd(rfi == fi, vpAnd(rdv == dv, rcm == cm))))
	vpAssert(ok, "reference reads cur's footer fields")
	vpAssert(rver == 2, "reference reads version 2")
	ok = vpAnd(f.numDocs == nd, vpAnd(f.storedIndexOffset == st, vpAnd(f.fieldsIndexOffset == fi, vpAnd(f.docValueOffset == dv, f.chunkMode == cm))))
	vpAssert(ok, "cur reads the reference's footer fields")
	vpAssert(f.crc == rcrc, "same crc field")
	vpReach("C10 footer end")
}

// packing kernels agree with the reference for all inputs
func vpH_C10_kernels() {
	f := vpU64("freq")
	hl := vpBool("hasLocs")
	vpAssert(encodeFreqHasLocs(f, hl) == iceref.XEncodeFreqHasLocs(f, hl), "encodeFreqHasLocs")
	v := vpU64("v")
	d1, b1 := decodeFreqHasLocs(v)
	d2, b2 := iceref.XDecodeFreqHasLocs(v)
	vpAssert(d1 == d2 && b1 == b2, "decodeFreqHasLocs")
	doc, nb := vpU64("doc"), vpU64("norm")
	vpAssert(fSTValEncode1Hit(doc, nb) == iceref.XFSTValEncode1Hit(doc, nb), "fSTValEncode1Hit")
	x1, y1 := fSTValDecode1Hit(v)
	x2, y2 := iceref.XFSTValDecode1Hit(v)
	vpAssert(x1 == x2 && y1 == y2, "fSTValDecode1Hit")
	vpAssert(under32Bits(doc) == iceref.XUnder32Bits(doc), "under32Bits")
	vpReach("C10 kernels end")
}

// vpCrossRead: bytes written by one side are read identically by both sides.
func vpCrossRead(tag string, b []byte) {
	cur, err := Load(segment.NewDataBytes(b))
	vpMust(err, tag+": current reader loads")
	ref, err := iceref.Load(segment.NewDataBytes(b))
	vpMust(err, tag+": reference reader loads")
	if cur == nil || ref == nil {
		return
	}
	// The pinned reference reader has the defect repaired in the current tree by
	// "fix: dictionary entry count of a term that follows a 1-hit encoded term"
	// (known_findings.json, C08): its DictionaryIterator reports count 1 for such
	// an entry.  That count is therefore not part of the cross-read comparison;
	// the same number is still compared through PostingsList.Count.
	vpSameObsOpt(tag, vpObserve(cur, []string{"zz"}, []string{"q"}), vpObserve(ref, []string{"zz"}, []string{"q"}), true)
}

// builder output: current writer -> reference reader and reference writer -> current reader
func vpH_C10_cross() {
	g := vpNewGen(0)
	max := 2
	if vpThorough() {
		max = 3
	}
	docs := g.batch("b", 0, max, []int{0, 1, 2, 3, 4, 5, 6, 7, 9})
	mode := g.mode("b")
	g.done()
	cs, _, err := newWithChunkMode(vpDocs(docs), vpNormCalc, mode)
	vpMust(err, "current builder")
	rs, _, err := iceref.XNewWithChunkMode(vpDocs(docs), vpNormCalc, mode)
	vpMust(err, "reference builder")
	vpCrossRead("file written by current builder", vpPersist(cs))
	vpCrossRead("file written by reference builder", vpPersist(rs))
	vpReach("C10 cross end")
}

// merger output, both directions
func vpH_C10_crossmerge() {
	g := vpNewGen(0)
	tplA, tplB, maxB, ncfg := []int{2, 5, 7}, []int{2, 5}, 1, 2
	if vpThorough() {
		tplA, tplB, maxB, ncfg = vpMergeTemplates, []int{2, 3, 5, 10}, 2, 3
	}
	a := g.batch("A", 1, 2, tplA)
	b := g.batch("B", 0, maxB, tplB)
	vpSetLengths(a)
	vpSetLengths(b)
	drops := make([]*roaring.Bitmap, 2)
	dropped := make([][]bool, 2)
	drops[0], dropped[0] = vpDrops("m", len(a))
	drops[1], dropped[1] = vpDrops("m", len(b))
	g.done()
	// the pinned reference cannot load a zero-survivor merge (a defect of the reference itself): excluded
	vpAssume(len(vpSurvivors([][]*vpDoc{a, b}, dropped)) > 0)
	cfg := vpMergeCfgs[vpChoice("cfg", ncfg)]
	ca, cb := vpBuild(a, cfg.modeA), vpBuild(b, cfg.modeB)
	ra, _, err := iceref.XNewWithChunkMode(vpDocs(a), vpNormCalc, cfg.modeA)
	vpMust(err, "reference builder")
	rb, _, err := iceref.XNewWithChunkMode(vpDocs(b), vpNormCalc, cfg.modeB)
	vpMust(err, "reference builder")
	cm, _ := vpMergeBytes([]*Segment{ca, cb}, drops, cfg.out)
	var rbuf bytes.Buffer
	_, _, err = iceref.XMergeWriter([]segment.Segment{ra, rb}, drops, &rbuf, cfg.out)
	vpMust(err, "reference merger")
	vpCrossRead("file written by current merger", cm)
	vpCrossRead("file written by reference merger", rbuf.Bytes())
	vpReach("C10 crossmerge end")
}

// the 128-document stored block and 1024-document doc-value chunk layouts, both directions
func vpH_C10_blocks() {
	total := 130
	if vpChoice("size", 2) == 1 {
		total = 1030
	}
	var docs []*vpDoc
	for d := 0; d < total; d++ {
		doc := &vpDoc{}
		if d%127 == 0 || d == total-1 || d == 128 || d == 1024 {
			doc.fields = append(doc.fields, &vpField{name: "b", store: true, dv: true, value: []byte{byte(d), byte(d >> 8)}, length: 1,
				terms: []*vpTerm{{term: []byte{'t', byte('a' + d%5)}, freq: 1 + d%3}}})
		}
		if d == 127 {
			// a doc-value field with no value in the last 1024-document chunk(s)
			doc.fields = append(doc.fields, &vpField{name: "e", dv: true, length: 1, terms: []*vpTerm{{term: []byte("q"), freq: 1}}})
		}
		docs = append(docs, doc)
	}
	cs, _, err := newWithChunkMode(vpDocs(docs), vpNormCalc, 1025)
	vpMust(err, "current builder")
	rs, _, err := iceref.XNewWithChunkMode(vpDocs(docs), vpNormCalc, 1025)
	vpMust(err, "reference builder")
	probe := func(tag string, b []byte) {
		cur, err := Load(segment.NewDataBytes(b))
		vpMust(err, tag+": current reader loads")
		ref, err := iceref.Load(segment.NewDataBytes(b))
		vpMust(err, tag+": reference reader loads")
		for _, n := range []uint64{0, 127, 128, uint64(total - 1)} {
			var x, y []byte
			vpMust(cur.VisitStoredFields(n, func(f string, v []byte) bool { x = append(x, v...); return true }), "visit")
			vpMust(ref.VisitStoredFields(n, func(f string, v []byte) bool { y = append(y, v...); return true }), "visit")
			vpAssert(bytes.Equal(x, y), tag+": stored fields read identically")
			cr, _ := cur.DocumentValueReader([]string{"b", "e"})
			rr, _ := ref.DocumentValueReader([]string{"b", "e"})
			var p, q []byte
			vpMust(cr.VisitDocumentValues(n, func(f string, t []byte) { p = append(p, t...) }), "dv")
			vpMust(rr.VisitDocumentValues(n, func(f string, t []byte) { q = append(q, t...) }), "dv")
			vpAssert(bytes.Equal(p, q), tag+": doc values read identically")
			vpAssert((n%127 == 0 || n == uint64(total-1) || n == 128 || n == 1024) == (len(x) > 0), tag+": carriers")
		}
	}
	probe("file written by current builder", vpPersist(cs))
	probe("file written by reference builder", vpPersist(rs))
	vpReach("C10 blocks end")
}
