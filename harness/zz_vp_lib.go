//go:build verif

package ice

// Shared harness library: stub documents, the independent model (expected
// observations computed from the property statements, never by calling ice),
// observation of a segment through the public read API, and comparison.

import (
	"bytes"
	"math"
	"sort"

	"github.com/RoaringBitmap/roaring"
	segment "github.com/blugelabs/bluge_segment_api"
)

// ---------- stub documents ----------

type vpLoc struct {
	field           string
	pos, start, end int
}

func (l *vpLoc) Field() string { return l.field }
func (l *vpLoc) Start() int    { return l.start }
func (l *vpLoc) End() int      { return l.end }
func (l *vpLoc) Pos() int      { return l.pos }
func (l *vpLoc) Size() int     { return 0 }

type vpTerm struct {
	term []byte
	freq int
	locs []*vpLoc
}

func (t *vpTerm) Term() []byte   { return t.term }
func (t *vpTerm) Frequency() int { return t.freq }
func (t *vpTerm) EachLocation(vl segment.VisitLocation) {
	for _, l := range t.locs {
		vl(l)
	}
}

type vpField struct {
	name   string
	length int
	terms  []*vpTerm
	value  []byte
	store  bool
	dv     bool
}

func (f *vpField) Name() string         { return f.name }
func (f *vpField) Length() int          { return f.length }
func (f *vpField) Value() []byte        { return f.value }
func (f *vpField) Index() bool          { return true }
func (f *vpField) Store() bool          { return f.store }
func (f *vpField) IndexDocValues() bool { return f.dv }
func (f *vpField) EachTerm(vt segment.VisitTerm) {
	for _, t := range f.terms {
		vt(t)
	}
}

type vpDoc struct {
	fields []*vpField
}

func (d *vpDoc) Analyze() {}
func (d *vpDoc) EachField(vf segment.VisitField) {
	for _, f := range d.fields {
		vf(f)
	}
}

func vpDocs(ds []*vpDoc) []segment.Document {
	out := make([]segment.Document, len(ds))
	for i, d := range ds {
		out[i] = d
	}
	return out
}

// vpSetLengths makes every field's Length the sum of its term frequencies
// (what Bluge's analyzers guarantee; the contract of C16).
func vpSetLengths(ds []*vpDoc) {
	for _, d := range ds {
		for _, f := range d.fields {
			n := 0
			for _, t := range f.terms {
				n += t.freq
			}
			f.length = n
		}
	}
}

// ---------- norm function ----------

var vpNormBase uint32 = 0x3f000000

// vpNormBits is the float32 pattern of the norm of (field, total length): a
// positive normal float that depends on both arguments.
func vpNormBits(field string, length int) uint32 {
	return vpNormBase + uint32(len(field))<<12 + uint32(length)&0xfff
}

func vpNormCalc(field string, length int) float32 {
	return math.Float32frombits(vpNormBits(field, length))
}

// ---------- the model ----------

type vpXLoc struct {
	field           string
	pos, start, end int
}

type vpXPosting struct {
	doc      uint64
	freq     int
	normBits uint32
	locs     []vpXLoc
}

type vpXStored struct {
	field string
	value []byte
}

type vpExpect struct {
	count   uint64
	fields  []string
	terms   map[string][]string                // field -> sorted terms with >=1 posting
	post    map[string]map[string][]vpXPosting // field -> term -> postings ascending
	stored  [][]vpXStored                      // per doc, in field-list order
	dv      map[string]map[uint64][]string     // dv field -> doc -> sorted distinct terms
	fdocs   map[string]uint64                  // docs carrying the field
	fdocsT  map[string]uint64                  // docs with >=1 term in the field
	ffreqs  map[string]uint64                  // sum of Length()
	ffreqsT map[string]uint64                  // sum of term frequencies
	dvField map[string]bool
}

// vpBuildExpect computes what a segment holding exactly docs (numbered in
// order) must answer.  extraFields are field names that must be listed even
// though no document carries them (merge: union of the inputs' field lists).
func vpBuildExpect(docs []*vpDoc, extraFields []string) *vpExpect {
	e := &vpExpect{
		count: uint64(len(docs)),
		terms: map[string][]string{}, post: map[string]map[string][]vpXPosting{},
		dv: map[string]map[uint64][]string{}, fdocs: map[string]uint64{}, fdocsT: map[string]uint64{},
		ffreqs: map[string]uint64{}, ffreqsT: map[string]uint64{}, dvField: map[string]bool{},
	}
	seen := map[string]bool{_idFieldName: true}
	var rest []string
	addField := func(n string) {
		if !seen[n] {
			seen[n] = true
			rest = append(rest, n)
		}
	}
	for _, d := range docs {
		for _, f := range d.fields {
			addField(f.name)
			if f.dv {
				e.dvField[f.name] = true
			}
		}
	}
	for _, n := range extraFields {
		addField(n)
	}
	sort.Strings(rest)
	e.fields = append([]string{_idFieldName}, rest...)
	for _, n := range e.fields {
		e.post[n] = map[string][]vpXPosting{}
	}

	for dn, d := range docs {
		// group instances by field name, in order of first appearance
		var names []string
		inst := map[string][]*vpField{}
		for _, f := range d.fields {
			if _, ok := inst[f.name]; !ok {
				names = append(names, f.name)
			}
			inst[f.name] = append(inst[f.name], f)
		}
		for _, name := range names {
			fs := inst[name]
			total := 0
			for _, f := range fs {
				total += f.length
			}
			e.fdocs[name]++
			e.ffreqs[name] += uint64(total)
			nb := vpNormBits(name, total)
			// terms in order of first appearance within the doc
			var tnames []string
			acc := map[string]*vpXPosting{}
			for _, f := range fs {
				for _, t := range f.terms {
					k := string(t.term)
					p := acc[k]
					if p == nil {
						p = &vpXPosting{doc: uint64(dn), normBits: nb}
						acc[k] = p
						tnames = append(tnames, k)
					}
					p.freq += t.freq
					for _, l := range t.locs {
						lf := l.field
						if lf == "" {
							lf = name
						}
						p.locs = append(p.locs, vpXLoc{lf, l.pos, l.start, l.end})
					}
				}
			}
			if len(tnames) > 0 {
				e.fdocsT[name]++
			}
			for _, k := range tnames {
				e.post[name][k] = append(e.post[name][k], *acc[k])
				e.ffreqsT[name] += uint64(acc[k].freq)
			}
			if e.dvField[name] && len(tnames) > 0 {
				st := append([]string(nil), tnames...)
				sort.Strings(st)
				if e.dv[name] == nil {
					e.dv[name] = map[uint64][]string{}
				}
				e.dv[name][uint64(dn)] = st
			}
		}
		// stored values: grouped in field-list order, input order within a field
		var sv []vpXStored
		for _, fname := range e.fields {
			for _, f := range d.fields {
				if f.name == fname && f.store {
					sv = append(sv, vpXStored{fname, f.value})
				}
			}
		}
		e.stored = append(e.stored, sv)
	}
	for _, n := range e.fields {
		var ts []string
		for k := range e.post[n] {
			ts = append(ts, k)
		}
		sort.Strings(ts)
		e.terms[n] = ts
	}
	return e
}

// ---------- observation ----------

type vpObsDictEntry struct {
	term  string
	count uint64
}

type vpObs struct {
	count  uint64
	fields []string
	dict   map[string][]vpObsDictEntry
	post   map[string]map[string][]vpXPosting
	pcount map[string]map[string]uint64
	stored [][]vpXStored
	dv     map[string]map[uint64][]string
	stats  map[string][3]uint64
}

func vpMust(err error, what string) {
	vpAssert(err == nil, "no error: "+what)
}

func vpNormOf(p segment.Posting) uint32 {
	return math.Float32bits(float32(p.Norm()))
}

// vpReadPostings walks one postings list with all flags on.
func vpReadPostings(pl segment.PostingsList) []vpXPosting {
	it, err := pl.Iterator(true, true, true, nil)
	vpMust(err, "PostingsList.Iterator")
	var out []vpXPosting
	for {
		p, err := it.Next()
		vpMust(err, "PostingsIterator.Next")
		if p == nil {
			break
		}
		x := vpXPosting{doc: p.Number(), freq: p.Frequency(), normBits: vpNormOf(p)}
		for _, l := range p.Locations() {
			x.locs = append(x.locs, vpXLoc{l.Field(), l.Pos(), l.Start(), l.End()})
		}
		out = append(out, x)
		if len(out) > 64 {
			vpAssert(false, "postings iterator does not terminate")
			break
		}
	}
	return out
}

// vpObserve reads everything the read API exposes.  fields to probe are the
// segment's own field list plus extra (unknown) names.
func vpObserve(seg segment.Segment, probeFields []string, probeTerms []string) *vpObs {
	o := &vpObs{
		count: seg.Count(), fields: append([]string(nil), seg.Fields()...),
		dict: map[string][]vpObsDictEntry{}, post: map[string]map[string][]vpXPosting{},
		pcount: map[string]map[string]uint64{},
		dv:     map[string]map[uint64][]string{}, stats: map[string][3]uint64{},
	}
	names := append(append([]string(nil), o.fields...), probeFields...)
	for _, f := range names {
		d, err := seg.Dictionary(f)
		vpMust(err, "Dictionary")
		vpAssert(d != nil, "Dictionary is non-nil")
		it := d.Iterator(nil, nil, nil)
		var ents []vpObsDictEntry
		for {
			e, err := it.Next()
			vpMust(err, "DictionaryIterator.Next")
			if e == nil {
				break
			}
			ents = append(ents, vpObsDictEntry{e.Term(), e.Count()})
			if len(ents) > 64 {
				vpAssert(false, "dictionary iterator does not terminate")
				break
			}
		}
		o.dict[f] = ents
		o.post[f] = map[string][]vpXPosting{}
		o.pcount[f] = map[string]uint64{}
		tset := map[string]bool{}
		var tlist []string
		for _, e := range ents {
			if !tset[e.term] {
				tset[e.term] = true
				tlist = append(tlist, e.term)
			}
		}
		for _, t := range probeTerms {
			if !tset[t] {
				tset[t] = true
				tlist = append(tlist, t)
			}
		}
		for _, t := range tlist {
			pl, err := d.PostingsList([]byte(t), nil, nil)
			vpMust(err, "PostingsList")
			o.pcount[f][t] = pl.Count()
			ps := vpReadPostings(pl)
			if len(ps) > 0 {
				o.post[f][t] = ps
			}
			ok, err := d.Contains([]byte(t))
			vpMust(err, "Contains")
			vpAssert(ok == (len(ps) > 0), "Contains agrees with postings")
		}
		st, err := seg.CollectionStats(f)
		vpMust(err, "CollectionStats")
		o.stats[f] = [3]uint64{st.TotalDocumentCount(), st.DocumentCount(), st.SumTotalTermFrequency()}
	}
	for n := uint64(0); n < o.count; n++ {
		var sv []vpXStored
		err := seg.VisitStoredFields(n, func(field string, value []byte) bool {
			sv = append(sv, vpXStored{field, append([]byte(nil), value...)})
			return true
		})
		vpMust(err, "VisitStoredFields")
		o.stored = append(o.stored, sv)
	}
	dvr, err := seg.DocumentValueReader(names)
	vpMust(err, "DocumentValueReader")
	for n := uint64(0); n < o.count; n++ {
		err := dvr.VisitDocumentValues(n, func(field string, term []byte) {
			if o.dv[field] == nil {
				o.dv[field] = map[uint64][]string{}
			}
			o.dv[field][n] = append(o.dv[field][n], string(term))
		})
		vpMust(err, "VisitDocumentValues")
	}
	return o
}

// ---------- comparison ----------

func vpStrsEq(a, b []string) bool {
	if len(a) != len(b) {
		return false
	}
	for i := range a {
		if a[i] != b[i] {
			return false
		}
	}
	return true
}

// vpAnd is a non-branching conjunction (symbolic conditions are not forked).
func vpAnd(a, b bool) bool { return a && b }

// vpBytesEq compares byte slices without branching on (symbolic) contents.
func vpBytesEq(a, b []byte) bool {
	if len(a) != len(b) {
		return false
	}
	ok := true
	for i := range a {
		ok = vpAnd(ok, a[i] == b[i])
	}
	return ok
}

// vpPostingsMatch compares observed postings with expected ones; structure
// concretely, values through one conjunction per category.
func vpPostingsMatch(tag string, got, want []vpXPosting) {
	vpAssert(len(got) == len(want), tag+": number of postings")
	if len(got) != len(want) {
		return
	}
	docsOK, freqOK, normOK, locOK := true, true, true, true
	for i := range got {
		g, w := got[i], want[i]
		docsOK = vpAnd(docsOK, g.doc == w.doc)
		freqOK = vpAnd(freqOK, g.freq == w.freq)
		normOK = vpAnd(normOK, g.normBits == w.normBits)
		vpAssert(len(g.locs) == len(w.locs), tag+": number of locations")
		if len(g.locs) != len(w.locs) {
			continue
		}
		for j := range g.locs {
			vpAssert(g.locs[j].field == w.locs[j].field, tag+": location field name")
			locOK = vpAnd(locOK, g.locs[j].pos == w.locs[j].pos)
			locOK = vpAnd(locOK, g.locs[j].start == w.locs[j].start)
			locOK = vpAnd(locOK, g.locs[j].end == w.locs[j].end)
		}
	}
	vpAssert(docsOK, tag+": document numbers")
	vpAssert(freqOK, tag+": frequencies")
	vpAssert(normOK, tag+": norms")
	vpAssert(locOK, tag+": location values")
}

type vpMatchOpts struct {
	merged    bool // statistics follow the merged-segment reading of C16
	skipStats bool
	skipCount bool // dictionary entry counts (C08 defect) are not compared
}

// vpMatchesModel asserts that an observation equals the model, including absence.
func vpMatchesModel(tag string, o *vpObs, e *vpExpect, opt vpMatchOpts) {
	vpAssert(o.count == e.count, tag+": Count()")
	vpAssert(vpStrsEq(o.fields, e.fields), tag+": field list")
	for f, ents := range o.dict {
		want := e.terms[f] // nil for unknown fields
		vpAssert(len(ents) == len(want), tag+": dictionary size of "+f)
		if len(ents) == len(want) {
			cntOK := true
			for i := range ents {
				vpAssert(ents[i].term == want[i], tag+": dictionary term order in "+f)
				if !opt.skipCount {
					cntOK = vpAnd(cntOK, ents[i].count == uint64(len(e.post[f][want[i]])))
				}
			}
			vpAssert(cntOK, tag+": dictionary entry counts in "+f)
		}
		for t, ps := range o.post[f] {
			vpPostingsMatch(tag+": postings", ps, e.post[f][t])
		}
		for t, n := range o.pcount[f] {
			vpAssert(n == uint64(len(e.post[f][t])), tag+": PostingsList.Count")
		}
		for _, t := range want {
			_, ok := o.post[f][t]
			vpAssert(ok, tag+": expected term has postings")
		}
		if !opt.skipStats {
			st := o.stats[f]
			if _, known := e.post[f]; known {
				vpAssert(st[0] == e.count, tag+": TotalDocumentCount")
				if opt.merged {
					vpAssert(st[1] == e.fdocsT[f], tag+": DocumentCount")
					vpAssert(st[2] == e.ffreqsT[f], tag+": SumTotalTermFrequency")
				} else {
					vpAssert(st[1] == e.fdocs[f], tag+": DocumentCount")
					vpAssert(st[2] == e.ffreqs[f], tag+": SumTotalTermFrequency")
				}
			} else {
				vpAssert(st[0] == 0 && st[1] == 0 && st[2] == 0, tag+": stats of unknown field are zero")
			}
		}
	}
	vpAssert(len(o.stored) == len(e.stored), tag+": stored docs")
	if len(o.stored) == len(e.stored) {
		for n := range o.stored {
			g, w := o.stored[n], e.stored[n]
			vpAssert(len(g) == len(w), tag+": number of stored values")
			if len(g) != len(w) {
				continue
			}
			for i := range g {
				vpAssert(g[i].field == w[i].field, tag+": stored field order")
				vpAssert(vpBytesEq(g[i].value, w[i].value), tag+": stored value bytes")
			}
		}
	}
	for f, m := range o.dv {
		for n, ts := range m {
			var want []string
			if e.dv[f] != nil {
				want = e.dv[f][n]
			}
			vpAssert(vpStrsEq(ts, want), tag+": doc values")
		}
	}
	for f, m := range e.dv {
		for n, want := range m {
			var got []string
			if o.dv[f] != nil {
				got = o.dv[f][n]
			}
			vpAssert(vpStrsEq(got, want), tag+": doc values present")
		}
	}
}

// vpSameObs asserts two observations are identical.
func vpSameObs(tag string, a, b *vpObs) { vpSameObsOpt(tag, a, b, false) }

// vpSameObsOpt: with skipDictCounts the Count() of dictionary iterator entries
// is not compared (PostingsList.Count still is).
func vpSameObsOpt(tag string, a, b *vpObs, skipDictCounts bool) {
	vpAssert(a.count == b.count, tag+": Count()")
	vpAssert(vpStrsEq(a.fields, b.fields), tag+": field list")
	vpAssert(len(a.dict) == len(b.dict), tag+": probed fields")
	for f, ea := range a.dict {
		eb := b.dict[f]
		vpAssert(len(ea) == len(eb), tag+": dictionary size")
		if len(ea) == len(eb) {
			ok := true
			for i := range ea {
				vpAssert(ea[i].term == eb[i].term, tag+": dictionary terms")
				if !skipDictCounts {
					ok = vpAnd(ok, ea[i].count == eb[i].count)
				}
			}
			vpAssert(ok, tag+": dictionary counts")
		}
		vpAssert(len(a.post[f]) == len(b.post[f]), tag+": terms with postings")
		for t, pa := range a.post[f] {
			vpPostingsMatch(tag+": postings", pa, b.post[f][t])
		}
		for t, n := range a.pcount[f] {
			vpAssert(n == b.pcount[f][t], tag+": PostingsList.Count")
		}
		sa, sb := a.stats[f], b.stats[f]
		vpAssert(vpAnd(vpAnd(sa[0] == sb[0], sa[1] == sb[1]), sa[2] == sb[2]), tag+": statistics")
	}
	vpAssert(len(a.stored) == len(b.stored), tag+": stored docs")
	if len(a.stored) == len(b.stored) {
		for n := range a.stored {
			g, w := a.stored[n], b.stored[n]
			vpAssert(len(g) == len(w), tag+": number of stored values")
			if len(g) != len(w) {
				continue
			}
			for i := range g {
				vpAssert(g[i].field == w[i].field, tag+": stored field order")
				vpAssert(vpBytesEq(g[i].value, w[i].value), tag+": stored value bytes")
			}
		}
	}
	vpAssert(len(a.dv) == len(b.dv), tag+": doc value fields")
	for f, m := range a.dv {
		vpAssert(len(m) == len(b.dv[f]), tag+": doc value docs")
		for n, ts := range m {
			vpAssert(vpStrsEq(ts, b.dv[f][n]), tag+": doc values")
		}
	}
}

// ---------- helpers to produce segments through the real code paths ----------

func vpBuild(docs []*vpDoc, mode uint32) *Segment {
	s, _, err := newWithChunkMode(vpDocs(docs), vpNormCalc, mode)
	vpMust(err, "newWithChunkMode")
	seg, ok := s.(*Segment)
	vpAssert(ok && seg != nil, "New returns *Segment")
	return seg
}

func vpPersist(seg segment.Segment) []byte {
	var buf bytes.Buffer
	n, err := seg.WriteTo(&buf, nil)
	vpMust(err, "Segment.WriteTo")
	vpAssert(n == int64(buf.Len()), "WriteTo returns the number of bytes written")
	return buf.Bytes()
}

func vpLoad(b []byte) *Segment {
	s, err := load(segment.NewDataBytes(b))
	vpMust(err, "Load")
	return s
}

func vpMergeBytes(segs []*Segment, drops []*roaring.Bitmap, mode uint32) ([]byte, [][]uint64) {
	var buf bytes.Buffer
	dn, n, err := mergeSegmentBasesWriter(segs, drops, &buf, mode, nil)
	vpMust(err, "mergeSegmentBasesWriter")
	vpAssert(n == uint64(buf.Len()), "merge returns the number of bytes written")
	return buf.Bytes(), dn
}
