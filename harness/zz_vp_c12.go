//go:build verif

package ice

import (
	"bytes"
	"errors"
	"io"

	"github.com/RoaringBitmap/roaring"
	segment "github.com/blugelabs/bluge_segment_api"
)

func init() {
	vpRegister("vpH_C12_fail", vpH_C12_fail)
	vpRegister("vpH_C12_cancel", vpH_C12_cancel)
	vpRegister("vpH_C12_bigcancel", vpH_C12_bigcancel)
}

var errVPWriter = errors.New("vp: injected writer failure")

// vpFailWriter accepts writes while the running total stays <= limit; the
// first write that would exceed it, and every later one, fails.  The failing
// write accepts `partial` bytes (0 or 1) of its argument.
type vpFailWriter struct {
	buf     bytes.Buffer
	limit   uint64
	n       uint64
	failed  bool
	partial int
}

func (w *vpFailWriter) Write(p []byte) (int, error) {
	if w.failed {
		return 0, errVPWriter
	}
	if w.n+uint64(len(p)) <= w.limit {
		w.n += uint64(len(p))
		w.buf.Write(p)
		return len(p), nil
	}
	w.failed = true
	m := w.partial
	if m > len(p) {
		m = len(p)
	}
	return m, errVPWriter
}

const vpC12Shapes = 5

func vpC12Docs(k int) ([]*vpDoc, []*vpDoc) {
	g := vpNewGen(0)
	switch k {
	case 3:
		return []*vpDoc{g.doc(4, 0), g.doc(6, 1), g.doc(8, 2)}, []*vpDoc{g.doc(7, 0)}
	case 4:
		return []*vpDoc{g.doc(0, 0)}, []*vpDoc{g.doc(3, 0), g.doc(5, 1)}
	case 0:
		return []*vpDoc{g.doc(2, 0)}, []*vpDoc{g.doc(5, 0)}
	case 1:
		return []*vpDoc{g.doc(3, 0), g.doc(7, 1)}, nil
	default:
		return []*vpDoc{g.doc(5, 0), g.doc(1, 1)}, []*vpDoc{g.doc(2, 0), g.doc(9, 1)}
	}
}

// C12: the destination writer starts failing at byte offset k (symbolic).
func vpH_C12_fail() {
	nshape := 3
	if vpThorough() {
		nshape = vpC12Shapes
	}
	a, b := vpC12Docs(vpChoice("shape", nshape))
	sa, sb := vpBuild(a, 1025), vpBuild(b, 2)
	work := vpChoice("workload", 3)
	var ref bytes.Buffer
	// ONE object serves every attempt (the reference run, the failing run and
	// the retry): a segment, a loaded segment, or a Merger
	type writerTo interface {
		WriteTo(w io.Writer, closeCh chan struct{}) (int64, error)
	}
	var target writerTo
	switch work {
	case 0:
		target = sa
	case 1:
		target = vpLoad(vpPersist(sa))
	default:
		dr := roaring.New()
		dr.Add(0)
		sizes := []int{0, 1, 7, 64}
		if vpThorough() {
			sizes = []int{0, 1, 2, 3, 7, 16, 64, 300}
		}
		bs := sizes[vpChoice("bufsize", len(sizes))]
		target = Merge([]segment.Segment{sa, sb}, []*roaring.Bitmap{dr, nil}, bs)
	}
	run := func(w io.Writer) (int64, error) { return target.WriteTo(w, nil) }
	_, err := run(&ref)
	vpMust(err, "fault-free run")
	total := uint64(ref.Len())
	partial := vpChoice("partial", 2)
	try := func(k uint64) {
		fw := &vpFailWriter{limit: k, partial: partial}
		n, err := run(fw)
		if fw.failed {
			vpAssert(err != nil, "a failing writer is reported as an error")
			vpReach("C12 failed write")
			// the retry into a healthy writer: success only with the complete, correct file
			var again bytes.Buffer
			n2, err2 := run(&again)
			vpAssert(err2 != nil || (uint64(n2) == total && bytes.Equal(again.Bytes(), ref.Bytes())), "a retry after a failed attempt succeeds only with the complete, identical file")
		} else {
			vpAssert(err == nil, "no error when the writer never failed")
			vpAssert(uint64(n) == total && bytes.Equal(fw.buf.Bytes(), ref.Bytes()), "complete, identical file when the writer never failed")
			vpReach("C12 clean write")
		}
	}
	if vpSymbolic() {
		try(vpRange("k", 0, total+1))
	} else {
		// byte offsets do not transfer between the engine (zstd model) and the
		// real codec (other section sizes): natively every offset is swept
		for k := uint64(0); k <= total+1; k++ {
			try(k)
		}
	}
	vpReach("C12 fail end")
}

// vpCloseWriter closes the channel once k bytes have been written.
type vpCloseWriter struct {
	buf    bytes.Buffer
	k      uint64
	ch     chan struct{}
	closed bool
}

func (w *vpCloseWriter) check() {
	if !w.closed && uint64(w.buf.Len()) >= w.k {
		w.closed = true
		close(w.ch)
	}
}

func (w *vpCloseWriter) Write(p []byte) (int, error) {
	w.buf.Write(p)
	w.check()
	return len(p), nil
}

// C12: the close channel is closed when k bytes have been written (k symbolic).
func vpH_C12_cancel() {
	nshape := 3
	if vpThorough() {
		nshape = vpC12Shapes
	}
	a, b := vpC12Docs(vpChoice("shape", nshape))
	sa, sb := vpBuild(a, 1025), vpBuild(b, 2)
	dr := roaring.New()
	dr.Add(0)
	segs := []*Segment{sa, sb}
	drops := []*roaring.Bitmap{dr, nil}
	var ref bytes.Buffer
	_, _, err := mergeSegmentBasesWriter(segs, drops, &ref, 1025, nil)
	vpMust(err, "fault-free merge")
	total := uint64(ref.Len())
	try := func(k uint64) {
		cw := &vpCloseWriter{k: k, ch: make(chan struct{})}
		cw.check() // k == 0: closed before the merge starts
		_, n, err := mergeSegmentBasesWriter(segs, drops, cw, 1025, cw.ch)
		if err != nil {
			vpAssert(err == segment.ErrClosed, "a cancelled merge returns ErrClosed")
			vpReach("C12 cancelled")
		} else {
			vpAssert(n == total && bytes.Equal(cw.buf.Bytes(), ref.Bytes()), "success only with the complete, correct file")
			vpReach("C12 completed")
		}
	}
	if vpSymbolic() {
		try(vpRange("k", 0, total+1))
	} else {
		for k := uint64(0); k <= total+1; k++ { // see vpH_C12_fail
			try(k)
		}
	}
	vpReach("C12 cancel end")
}

// vpBoundaryWriter records the file offset after every Write call.
type vpBoundaryWriter struct {
	buf  bytes.Buffer
	offs []uint64
}

func (w *vpBoundaryWriter) Write(p []byte) (int, error) {
	w.buf.Write(p)
	w.offs = append(w.offs, uint64(w.buf.Len()))
	return len(p), nil
}

// C12, cancellation of a large merge: 1030 + 5 documents with a doc-value
// field in both inputs (the merged doc values cross a 1024-document chunk while
// the first input is copied), merged through Merger.WriteTo with a 300-byte
// buffer; the channel is closed when k bytes have reached the writer.
func vpH_C12_bigcancel() {
	mk := func(prefix string, n int) []*vpDoc {
		var ds []*vpDoc
		for d := 0; d < n; d++ {
			id := []byte(prefix + vpItoa(d))
			ds = append(ds, &vpDoc{fields: []*vpField{
				{name: "_id", store: true, value: id, length: 1, terms: []*vpTerm{{term: id, freq: 1}}},
				{name: "zz", dv: true, length: 1, terms: []*vpTerm{{term: []byte{'v', byte('a' + d%7)}, freq: 1}}}}})
		}
		return ds
	}
	sa, sb := vpBuild(mk("a", 1030), 1025), vpBuild(mk("b", 5), 1025)
	segs := []segment.Segment{sa, sb}
	drops := []*roaring.Bitmap{nil, nil}
	ref := &vpBoundaryWriter{}
	_, err := Merge(segs, drops, 300).WriteTo(ref, nil)
	vpMust(err, "fault-free merge")
	total := uint64(ref.buf.Len())
	try := func(k uint64) {
		cw := &vpCloseWriter{k: k, ch: make(chan struct{})}
		cw.check()
		n, err := Merge(segs, drops, 300).WriteTo(cw, cw.ch)
		if err != nil {
			vpAssert(err == segment.ErrClosed, "a cancelled merge returns ErrClosed")
			vpReach("C12 cancelled")
		} else {
			vpAssert(uint64(n) == total && bytes.Equal(cw.buf.Bytes(), ref.buf.Bytes()), "success only with the complete, correct file")
			vpReach("C12 completed")
		}
	}
	// close points in the last third of the file (the per-field sections of the
	// last fields; earlier offsets are covered by vpH_C12_cancel on small merges)
	from := total * 2 / 3
	if vpSymbolic() {
		try(vpRange("k", from, total+1))
	} else {
		// natively the close points are the write boundaries of the reference run
		for _, k := range ref.offs {
			if k >= from {
				try(k)
			}
		}
		try(total + 1)
	}
	vpReach("C12 bigcancel end")
}
