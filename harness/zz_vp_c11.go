//go:build verif

package ice

import (
	"bytes"
	"encoding/binary"
	"hash/crc32"

	"github.com/RoaringBitmap/roaring"
	segment "github.com/blugelabs/bluge_segment_api"
)

func init() {
	vpRegister("vpH_C11_crc", vpH_C11_crc)
	vpRegister("vpH_K8_counthash", vpH_K8_counthash)
}

// vpFooterCheck asserts the file ends in a well-formed footer whose CRC covers every preceding byte.
func vpFooterCheck(tag string, b []byte, count uint64, mode uint32) {
	vpAssert(len(b) >= footerLen, tag+": file holds a footer")
	if len(b) < footerLen {
		return
	}
	ft := b[len(b)-footerLen:]
	vpAssert(binary.BigEndian.Uint64(ft[0:8]) == count, tag+": footer document count")
	vpAssert(binary.BigEndian.Uint32(ft[32:36]) == mode, tag+": footer chunk mode")
	vpAssert(binary.BigEndian.Uint32(ft[36:40]) == 2, tag+": footer version")
	want := crc32.ChecksumIEEE(b[:len(b)-4])
	vpAssert(binary.BigEndian.Uint32(ft[40:44]) == want, tag+": CRC-32 covers every preceding byte")
	l, err := Load(segment.NewDataBytes(b))
	vpMust(err, tag+": loads")
	if l != nil {
		ls := l.(*Segment)
		vpAssert(ls.Count() == count && ls.ChunkMode() == mode && ls.Version() == 2, tag+": loaded segment reports the footer values")
	}
}

// C11: built, loaded, merged and re-persisted segments.
func vpH_C11_crc() {
	g := vpNewGen(0)
	max, tpl := 2, []int{0, 1, 2, 5, 7}
	if vpThorough() {
		max, tpl = 3, vpAllTemplates()
	}
	docs := g.batch("b", 0, max, tpl)
	mode := g.mode("b")
	g.done()
	seg := vpBuild(docs, mode)
	switch vpChoice("variant", 5) {
	case 4:
		// loaded from file-backed storage (io.ReaderAt) and persisted again
		b := vpPersist(seg)
		l, _ := vpLoadFile(b)
		vpNote("feat:re-persist-file-backed")
		vpFailedPersistFirst(l, len(b))
		b2 := vpPersist(l)
		vpAssert(len(b2) == len(b), "re-persisted file has the same length")
		vpAssert(vpBytesEq(b2, b), "persisting a file-backed loaded segment reproduces the file byte for byte")
		vpFooterCheck("re-persisted (file-backed)", b2, uint64(len(docs)), mode)
		vpReach("C11 loaded file")
	case 0:
		first := vpPersist(seg)
		vpFailedPersistFirst(seg, len(first))
		again := vpPersist(seg)
		vpAssert(vpBytesEq(first, again), "persisting a built segment twice writes the same bytes")
		vpFooterCheck("built", again, uint64(len(docs)), mode)
		vpReach("C11 built")
	case 1:
		b := vpPersist(seg)
		l := vpLoad(b)
		vpNote("feat:re-persist-loaded")
		vpFailedPersistFirst(l, len(b))
		b2 := vpPersist(l)
		vpAssert(len(b2) == len(b), "re-persisted file has the same length")
		vpAssert(vpBytesEq(b2, b), "persisting a loaded segment reproduces the file byte for byte")
		vpFooterCheck("re-persisted", b2, uint64(len(docs)), mode)
		vpReach("C11 loaded")
	case 2:
		vpAssume(len(docs) > 0)
		dr := roaring.New()
		dr.Add(0)
		var buf bytes.Buffer
		mg := Merge([]segment.Segment{seg, seg}, []*roaring.Bitmap{dr, nil}, []int{0, 1, 16}[vpChoice("bufsize", 3)])
		n, err := mg.WriteTo(&buf, nil)
		vpMust(err, "Merger.WriteTo")
		vpAssert(n == int64(buf.Len()), "Merger.WriteTo returns the number of bytes written")
		vpFooterCheck("merged", buf.Bytes(), uint64(2*len(docs)-1), defaultChunkMode)
		vpReach("C11 merged")
	case 3:
		vpAssume(len(docs) > 0)
		if vpChoice("merge-loaded-input", 2) == 1 {
			// the single input of the merge is itself a loaded segment
			seg = vpLoad(vpPersist(seg))
			var buf bytes.Buffer
			n, err := Merge([]segment.Segment{seg}, []*roaring.Bitmap{nil}, 0).WriteTo(&buf, nil)
			vpMust(err, "Merger.WriteTo")
			vpAssert(n == int64(buf.Len()), "Merger.WriteTo returns the number of bytes written")
			vpFooterCheck("merged (single loaded input)", buf.Bytes(), uint64(len(docs)), defaultChunkMode)
		}
		mb, _ := vpMergeBytes([]*Segment{seg}, []*roaring.Bitmap{nil}, mode)
		vpFooterCheck("merged (chunk mode)", mb, uint64(len(docs)), mode)
		l := vpLoad(mb)
		vpNote("feat:re-persist-loaded")
		b2 := vpPersist(l)
		vpAssert(vpBytesEq(b2, mb), "persisting a loaded merge output reproduces the file byte for byte")
		vpReach("C11 merged loaded")
	}
	vpReach("C11 end")
}

// vpFailedPersistFirst optionally persists seg into a writer that fails after
// some bytes (the first attempt of a retried persist): a failed attempt must
// not influence what the next one writes.
func vpFailedPersistFirst(seg *Segment, size int) {
	k := vpChoice("failed-write-first", 4)
	if k == 0 {
		return
	}
	limit := []int{0, 0, size / 2, size - 2}[k]
	if limit < 0 {
		limit = 0
	}
	vpNote("feat:failed-persist-first")
	w := &vpFailWriter{limit: uint64(limit), partial: 1}
	_, err := seg.WriteTo(w, nil)
	vpAssert(err != nil, "persisting into a failing writer reports an error")
}

// vpShortWriter accepts at most k bytes per call.
type vpShortWriter struct {
	buf bytes.Buffer
	k   int
}

func (w *vpShortWriter) Write(p []byte) (int, error) {
	if len(p) > w.k {
		p = p[:w.k]
	}
	return w.buf.Write(p)
}

// K8: countHashWriter counts and hashes exactly the bytes the underlying writer accepted.
func vpH_K8_counthash() {
	n := vpChoice("len", 4)
	k := vpChoice("accept", 4)
	p := make([]byte, n)
	for i := range p {
		p[i] = vpU8("b")
	}
	sw := &vpShortWriter{k: k}
	c := newCountHashWriter(sw)
	c.crc = vpU32("seed")
	seed := c.crc
	m, _ := c.Write(p)
	acc := n
	if k < n {
		acc = k
	}
	vpAssert(m == acc && c.Count() == acc, "count advances by the accepted bytes")
	vpAssert(c.Sum32() == crc32.Update(seed, crc32.IEEETable, p[:acc]), "crc folds exactly the accepted bytes")
	vpReach("K8 end")
}
