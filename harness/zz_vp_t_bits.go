//go:build verif

package ice

import "math/bits"

func init() { vpRegister("vpH_T_bits", vpH_T_bits) }

// engine self-test of the math/bits summaries against the loop definition
func vpH_T_bits() {
	x := vpU64("x")
	n := 0
	for y := x; y != 0; y >>= 1 {
		n++
	}
	vpAssert(bits.Len64(x) == n, "Len64")
	vpAssert((bits.Len64(x)+6)/7 == (n+6)/7, "Len64 arithmetic")
	vpAssert(bits.LeadingZeros64(x) == 64-n, "LeadingZeros64")
	vpReach("bits end")
}
