//go:build verif

package ice

// Batch generator: the *shape* of a batch is chosen by vpChoice (every
// alternative inside the bound is explored), its numeric *values* are
// symbolic.  Every numeric leaf is symbolic in a small range (single-byte
// varints, so no extra paths); one leaf per path, selected by choice, is wide.

type vpGen struct {
	wide     int // index of the wide leaf, -1 = none
	leaf     int
	feats    []string
	extra    int // frequency surplus over the number of locations (one shared symbolic value)
	hasExtra bool
	// frequencies of location-free terms: two symbolic values used alternately
	// unless perTermFreq is set (then every term has its own)
	perTermFreq bool
	freqs       [2]int
	nfreq       int
}

func vpNewGen(maxWide int) *vpGen {
	g := &vpGen{wide: -1}
	if maxWide > 0 {
		g.wide = vpChoice("wide-leaf", maxWide+1) - 1
	}
	return g
}

func (g *vpGen) feat(s string) {
	for _, f := range g.feats {
		if f == s {
			return
		}
	}
	g.feats = append(g.feats, s)
	vpNote("feat:" + s)
}

// num returns a symbolic number: small range normally, wide range for the chosen leaf.
func (g *vpGen) num(name string, small, wideMax uint64) uint64 {
	idx := g.leaf
	g.leaf++
	if idx == g.wide {
		vpNote("wide:" + name)
		return vpRange(name+".wide", 0, wideMax)
	}
	return vpRange(name, 0, small)
}

// done prunes paths whose wide index points past the last leaf.
func (g *vpGen) done() {
	vpAssume(g.wide < g.leaf)
}

const (
	vpFreqWide = 1<<62 - 1
	vpPosWide  = 1<<62 - 1
)

func (g *vpGen) loc(field string) *vpLoc {
	return &vpLoc{field: field,
		pos:   int(g.num("pos", 31, vpPosWide)),
		start: int(g.num("start", 31, vpPosWide)),
		end:   int(g.num("end", 31, vpPosWide))}
}

// term builds a term with nlocs locations naming locField and frequency >= nlocs.
func (g *vpGen) term(t string, nlocs int, locField string) *vpTerm {
	x := &vpTerm{term: []byte(t)}
	for i := 0; i < nlocs; i++ {
		x.locs = append(x.locs, g.loc(locField))
	}
	if nlocs > 0 {
		// the reader allocates freq Location slots when locations exist: keep it small
		x.freq = nlocs + int(g.num("extra", 2, 2))
	} else {
		if g.perTermFreq {
			x.freq = 1 + int(g.num("freq", 30, vpFreqWide))
		} else {
			k := g.nfreq % 2
			if g.nfreq < 2 {
				g.freqs[k] = 1 + int(g.num("freq", 30, vpFreqWide))
			}
			g.nfreq++
			x.freq = g.freqs[k]
		}
	}
	return x
}

func (g *vpGen) bytes(name string, n int) []byte {
	b := make([]byte, n)
	for i := range b {
		b[i] = vpU8(name)
	}
	return b
}

func (g *vpGen) field(name string, terms ...*vpTerm) *vpField {
	f := &vpField{name: name, terms: terms}
	f.length = int(g.num("len", 31, 4095))
	switch name {
	case "a":
		f.store = true
		f.value = g.bytes("val", 1)
	case "b":
		f.store = true
		f.dv = true
		f.value = g.bytes("val", 2)
	case "_id":
		f.store = true
	}
	return f
}

func (g *vpGen) idField(doc int) *vpField {
	// (no fmt here: the engine summarises fmt.Sprintf as an opaque string, which
	// would give every document the same _id)
	id := "d" + vpItoa(doc)
	f := &vpField{name: "_id", store: true, value: []byte(id), length: 1,
		terms: []*vpTerm{{term: []byte(id), freq: 1}}}
	return f
}

const vpNumTemplates = 11

// template k of a document.
func (g *vpGen) doc(k, idx int) *vpDoc {
	d := &vpDoc{}
	if k >= 1 {
		d.fields = append(d.fields, g.idField(idx))
	}
	switch k {
	case 0, 1:
	case 2:
		d.fields = append(d.fields, g.field("a", g.term("x", 1, "")))
	case 3:
		d.fields = append(d.fields, g.field("a", g.term("x", 2, ""), g.term("y\xfe", 0, "")))
	case 4:
		g.feat("repeated-field")
		d.fields = append(d.fields, g.field("a", g.term("x", 1, "")), g.field("a", g.term("x", 1, ""), g.term("", 0, "")))
	case 5:
		d.fields = append(d.fields, g.field("b", g.term("", 0, ""), g.term("x", 0, "")))
	case 6:
		g.feat("repeated-field")
		d.fields = append(d.fields, g.field("b", g.term("x", 0, "")), g.field("b", g.term("y\xfe", 0, "")))
	case 7:
		g.feat("composite")
		d.fields = append(d.fields, g.field("c", g.term("x", 1, "a")), g.field("a", g.term("x", 0, "")))
	case 8:
		g.feat("repeated-composite-loc")
		d.fields = append(d.fields, g.field("c", g.term("x", 1, "a")), g.field("c", g.term("x", 1, "a")), g.field("a", g.term("y\xfe", 0, "")))
	case 9:
		d.fields = append(d.fields, g.field("a", g.term("x", 0, "")), g.field("b", g.term("x", 0, "")))
	case 10:
		// a stored-only field without any term next to an indexed one
		g.feat("termless-field")
		d.fields = append(d.fields, g.field("a", g.term("x", 0, "")),
			&vpField{name: "s", store: true, value: g.bytes("val", 1)})
	}
	return d
}

// batch chooses 0..maxDocs documents, each from templates[].
func (g *vpGen) batch(tag string, minDocs, maxDocs int, templates []int) []*vpDoc {
	n := minDocs + vpChoice(tag+"-ndocs", maxDocs-minDocs+1)
	var ds []*vpDoc
	for i := 0; i < n; i++ {
		k := templates[vpChoice(tag+"-template", len(templates))]
		ds = append(ds, g.doc(k, i))
	}
	return ds
}

var vpModes = []uint32{1025, 1, 2, 3}

func (g *vpGen) mode(tag string) uint32 {
	return vpModes[vpChoice(tag+"-mode", len(vpModes))]
}

func vpAllTemplates() []int {
	t := make([]int, vpNumTemplates)
	for i := range t {
		t[i] = i
	}
	return t
}

// union of field names over several batches (for merge expectations)
func vpFieldNames(batches ...[]*vpDoc) []string {
	var out []string
	for _, b := range batches {
		for _, d := range b {
			for _, f := range d.fields {
				out = append(out, f.name)
				for _, t := range f.terms {
					for _, l := range t.locs {
						if l.field != "" {
							out = append(out, l.field)
						}
					}
				}
			}
		}
	}
	return out
}

func vpItoa(n int) string {
	if n == 0 {
		return "0"
	}
	var b []byte
	for n > 0 {
		b = append([]byte{byte('0' + n%10)}, b...)
		n /= 10
	}
	return string(b)
}
