//go:build verif

package ice

import (
	"errors"
	"io"

	"github.com/RoaringBitmap/roaring"
	segment "github.com/blugelabs/bluge_segment_api"
)

func init() {
	vpRegister("vpH_C04_built", vpH_C04_built)
	vpRegister("vpH_C04_merged", vpH_C04_merged)
	vpRegister("vpH_C04_later", vpH_C04_later)
}

// vpFile is an in-memory io.ReaderAt with os.File semantics (short read at the
// end returns io.EOF) that starts failing at its failFrom-th ReadAt (<0: never).
type vpFile struct {
	data     []byte
	failFrom int
	failOnce bool // only the failFrom-th ReadAt fails (a transient fault)
	reads    int
}

var errVPStorage = errors.New("vp: injected storage failure")

func (f *vpFile) ReadAt(p []byte, off int64) (int, error) {
	k := f.reads
	f.reads++
	if f.failFrom >= 0 && k >= f.failFrom && !(f.failOnce && k > f.failFrom) {
		return 0, errVPStorage
	}
	if off < 0 || off > int64(len(f.data)) {
		return 0, io.EOF
	}
	n := copy(p, f.data[off:])
	if n < len(p) {
		return n, io.EOF
	}
	return n, nil
}

func vpLoadFile(b []byte) (*Segment, *vpFile) {
	f := &vpFile{data: b, failFrom: -1}
	s, err := Load(vpDataFromReaderAt(f, len(b)))
	vpMust(err, "Load (file-backed)")
	seg, _ := s.(*Segment)
	vpAssert(seg != nil, "Load returns a segment")
	return seg, f
}

// vpLoadedVariant returns seg itself, seg persisted and loaded from memory, or
// persisted and loaded from file-backed storage (an io.ReaderAt: reads beyond
// the end of the file fail instead of reslicing).
func vpLoadedVariant(seg *Segment) *Segment {
	switch vpChoice("loaded", 3) {
	case 1:
		return vpLoad(vpPersist(seg))
	case 2:
		vpNote("feat:file-backed")
		l, _ := vpLoadFile(vpPersist(seg))
		return l
	}
	return seg
}

// vpRoundTrip: persist, load from memory and from a file model, compare every read API.
func vpRoundTrip(tag string, seg *Segment) {
	probeF, probeT := []string{"zz"}, []string{"q"}
	obs := vpObserve(seg, probeF, probeT)
	b := vpPersist(seg)
	l, err := Load(segment.NewDataBytes(b))
	vpMust(err, "Load (memory)")
	vpSameObs(tag+" loaded(mem)", obs, vpObserve(l, probeF, probeT))
	lf, _ := vpLoadFile(b)
	vpSameObs(tag+" loaded(file)", obs, vpObserve(lf, probeF, probeT))
	ls := l.(*Segment)
	vpAssert(ls.ChunkMode() == seg.ChunkMode() && ls.Version() == seg.Version() && ls.NumDocs() == seg.NumDocs(), tag+": footer getters")
}

// C04 for built segments: every batch of 0..2 documents over all templates.
func vpH_C04_built() {
	g := vpNewGen(0)
	max := 2
	if vpThorough() {
		max = 3
	}
	docs := g.batch("b", 0, max, vpAllTemplates())
	mode := g.mode("b")
	g.done()
	if len(docs) == 0 {
		vpReach("C04 empty batch")
	}
	seg := vpBuild(docs, mode)
	vpRoundTrip("built", seg)
	vpReach("C04 built end")
}

// C04 for merged segments, including merges that delete everything.
func vpH_C04_merged() {
	g := vpNewGen(0)
	tplA, tplB, maxB := []int{2, 5, 7}, []int{2, 5}, 1
	if vpThorough() {
		tplA, tplB, maxB = vpMergeTemplates, []int{2, 3, 5, 10}, 2
	}
	a := g.batch("A", 0, 2, tplA)
	b := g.batch("B", 0, maxB, tplB)
	sa := vpBuild(a, 1025)
	sb := vpBuild(b, 1)
	drops := make([]*roaring.Bitmap, 2)
	dropped := make([][]bool, 2)
	drops[0], dropped[0] = vpDrops("m", len(a))
	drops[1], dropped[1] = vpDrops("m", len(b))
	g.done()
	surv := vpSurvivors([][]*vpDoc{a, b}, dropped)
	if len(surv) == 0 {
		vpReach("C04 zero survivors")
		vpNote("feat:zero-survivors")
	}
	mb, _ := vpMergeBytes([]*Segment{sa, sb}, drops, []uint32{1025, 2}[vpChoice("out", 2)])
	m, err := Load(segment.NewDataBytes(mb))
	vpMust(err, "Load of merge output")
	ms, _ := m.(*Segment)
	vpAssert(ms != nil, "Load returns a segment")
	if ms != nil {
		vpRoundTrip("merged", ms)
	}
	vpReach("C04 merged end")
}

// C04 when the built segment stays in memory while the pooled builder builds
// another batch: what is loaded back from the written file still reads
// identically to the original.
func vpH_C04_later() {
	g := vpNewGen(0)
	docs := g.batch("b", 1, 2, []int{2, 5, 7, 10})
	g.done()
	probeF, probeT := []string{"zz"}, []string{"q"}
	vpPoolReuse(true)
	vpPoolFlush()
	seg := vpBuild(docs, 1025)
	b := vpPersist(seg)
	later := [][]*vpDoc{
		{{fields: []*vpField{{name: "aa", store: true, value: []byte("v"), length: 1, terms: []*vpTerm{{term: []byte("k"), freq: 1}}},
			{name: "zz", length: 1, terms: []*vpTerm{{term: []byte("k"), freq: 1}}}}}},
		{},
	}[vpChoice("later-batch", 2)]
	vpBuild(later, 1)
	vpPoolReuse(false)
	lf, _ := vpLoadFile(b)
	vpSameObs("original (after a later build) vs loaded(file)", vpObserve(seg, probeF, probeT), vpObserve(lf, probeF, probeT))
	vpReach("C04 later end")
}

func init() { vpRegister("vpH_C04_widestats", vpH_C04_widestats) }

// C04 for the per-field counters of the fields section: one or two documents whose field
// length (token count) is symbolic over 62 bits, so the uvarint written by persistFields
// and read by loadFields takes every width from 1 to 9 bytes; the loaded segment
// (memory-backed and, natively, file-backed through vpLoadedVariant) reports the same
// collection statistics as the built one and as the documents imply.
func vpH_C04_widestats() {
	n := vpRange("len.wide", 0, 1<<62-2)
	docs := []*vpDoc{{fields: []*vpField{{name: "f", terms: []*vpTerm{{term: []byte("t"), freq: 1 + int(n)}}}}}}
	if vpChoice("docs", 2) == 1 {
		docs = append(docs, &vpDoc{fields: []*vpField{{name: "f", length: 5, terms: []*vpTerm{{term: []byte("u"), freq: 2}}}}})
	}
	vpSetLengths(docs) // field length = number of tokens = sum of the frequencies
	seg := vpBuild(docs, 1025)
	exp := vpBuildExpect(docs, nil)
	vpStatsCheck("built (wide length)", seg, exp, false)
	vpStatsCheck("loaded (wide length)", vpLoad(vpPersist(seg)), exp, false)
	mb, _ := vpMergeBytes([]*Segment{seg}, []*roaring.Bitmap{nil}, 1025)
	vpStatsCheck("merged and loaded (wide length)", vpLoad(mb), exp, true)
	vpReach("C04 widestats end")
}
