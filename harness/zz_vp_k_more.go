//go:build verif

package ice

import (
	"bytes"

	segment "github.com/blugelabs/bluge_segment_api"
)

func init() {
	vpRegister("vpH_K4_chunksize", vpH_K4_chunksize)
	vpRegister("vpH_K5_offsets", vpH_K5_offsets)
	vpRegister("vpH_K6_intcoder", vpH_K6_intcoder)
	vpRegister("vpH_K7_footer", vpH_K7_footer)
}

// K4: for every valid chunk mode, cardinality and document count the chunk
// size is usable: non-zero, below 2^32 (the reader truncates it to uint32),
// every document's chunk index fits the writer's chunkLens table, and writer
// and reader compute the same chunk index.
func vpH_K4_chunksize() {
	mode := vpU32("mode")
	numDocs := vpRange("numDocs", 1, 1<<32-1)
	card := vpRange("card", 1, 1<<32-1)
	doc := vpRange("doc", 0, 1<<32-1)
	vpAssume(card <= numDocs && doc < numDocs)
	cs, err := getChunkSize(mode, card, numDocs)
	if mode == 0 || (mode > 1024 && mode != 1025) {
		// mode 0 is "valid" for getChunkSize but unusable; the property quantifies over 1..1024 and 1025
		vpReach("K4 invalid mode")
		if mode > 1025 {
			vpAssert(err != nil, "unknown chunk modes are rejected")
		}
		return
	}
	vpAssert(err == nil, "valid chunk mode accepted")
	vpAssert(cs >= 1, "chunk size is at least 1")
	vpAssert(cs < 1<<32, "chunk size fits uint32")
	total := (numDocs-1)/cs + 1 // length of chunkLens (SetChunkSize(chunkSize, numDocs-1))
	vpAssert(doc/cs < total, "chunk index inside the chunk table")
	vpAssert(uint64(uint32(doc)/uint32(cs)) == doc/cs, "reader and writer compute the same chunk index")
	vpReach("K4 end")
}

// K5: chunk lengths -> end offsets -> boundaries.
func vpH_K5_offsets() {
	n := 1 + vpChoice("n", 5)
	lens := make([]uint64, n)
	orig := make([]uint64, n)
	for i := range lens {
		lens[i] = vpRange("len", 0, 1<<32-1)
		orig[i] = lens[i]
	}
	offs := modifyLengthsToEndOffsets(lens)
	vpAssert(len(offs) == n, "one offset per chunk")
	var run uint64
	ok := true
	for i := 0; i < n; i++ {
		s, e := readChunkBoundary(i, offs)
		ok = vpAnd(ok, vpAnd(s == run, e == run+orig[i]))
		run += orig[i]
	}
	vpAssert(ok, "chunk i spans [sum(len[:i]), sum(len[:i+1]))")
	md := make([]metaData, n)
	for i := range md {
		md[i].DocDvOffset = offs[i]
	}
	run = 0
	ok = true
	for i := 0; i < n; i++ {
		s, e := readDocValueBoundary(i, md)
		ok = vpAnd(ok, vpAnd(s == run, e == run+orig[i]))
		run += orig[i]
	}
	vpAssert(ok, "doc value boundaries are the prefix sums")
	vpReach("K5 end")
}

// K6: chunkedIntCoder -> bytes -> chunkedIntDecoder: up to three Adds of two
// arbitrary uint64 each into chosen chunks, Write, decode per chunk; coder
// reuse after Reset equals a fresh coder; an empty coder writes nothing.
func vpH_K6_intcoder() {
	chunkSize := uint64(1 + vpChoice("chunkSize", 2))
	maxDoc := uint64(3)
	nAdd := vpChoice("adds", 4)
	c := newChunkedIntCoder(chunkSize, maxDoc)
	if vpChoice("reused", 2) == 1 {
		// dirty the coder first, then Reset: must behave like a fresh one
		c.Add(3, 77, 88)
		c.Close()
		c.Reset()
		c.SetChunkSize(chunkSize, maxDoc)
	}
	type rec struct {
		doc  uint64
		a, b uint64
	}
	var recs []rec
	doc := uint64(0)
	for i := 0; i < nAdd; i++ {
		doc += uint64(vpChoice("gap", 2))
		vpAssume(doc <= maxDoc)
		r := rec{doc, vpRange("a", 0, 300), vpRange("b", 0, 200)}
		if i == 0 {
			r.a = vpU64("a.wide") // one full-width value (ten varint length classes)
		}
		recs = append(recs, r)
		vpMust(c.Add(r.doc, r.a, r.b), "Add")
		doc++
	}
	c.Close()
	var buf bytes.Buffer
	buf.WriteByte(0xEE) // offset 0 means "not encoded": real streams never start at 0
	chw := newCountHashWriter(&buf)
	chw.n = 1
	off, err := c.writeAt(chw)
	vpMust(err, "writeAt")
	if nAdd == 0 {
		vpAssert(off == termNotEncoded && buf.Len() == 1, "an empty coder writes nothing and reports termNotEncoded")
		vpReach("K6 empty")
		return
	}
	vpAssert(off == 1, "stream offset is the writer position")
	data := segment.NewDataBytes(append(buf.Bytes(), make([]byte, 16)...)[:buf.Len()])
	d, err := newChunkedIntDecoder(data, off, nil)
	vpMust(err, "newChunkedIntDecoder")
	ok := true
	for ch := 0; ch*int(chunkSize) <= int(maxDoc); ch++ {
		vpMust(d.loadChunk(ch), "loadChunk")
		for _, r := range recs {
			if int(r.doc/chunkSize) != ch {
				continue
			}
			x, err := d.readUvarint()
			vpMust(err, "readUvarint")
			y, err := d.readUvarint()
			vpMust(err, "readUvarint")
			ok = vpAnd(ok, vpAnd(x == r.a, y == r.b))
		}
		vpAssert(d.Len() == 0, "chunk holds exactly its values")
	}
	vpAssert(ok, "decoder yields exactly the values added, per chunk")
	vpReach("K6 end")
}

// K7: footer round trip, layout and rejection of other versions / short data.
func vpH_K7_footer() {
	f := &footer{numDocs: vpU64("numDocs"), storedIndexOffset: vpU64("stored"), fieldsIndexOffset: vpU64("fields"),
		docValueOffset: vpU64("dv"), chunkMode: vpU32("chunkMode"), crc: vpU32("crc")}
	var buf bytes.Buffer
	buf.Write([]byte{1, 2, 3})
	vpMust(persistFooter(f, &buf), "persistFooter")
	b := buf.Bytes()
	vpAssert(len(b) == 3+44, "footer is 44 bytes")
	g, err := parseFooter(segment.NewDataBytes(b))
	vpMust(err, "parseFooter")
	ok := vpAnd(g.numDocs == f.numDocs, vpAnd(g.storedIndexOffset == f.storedIndexOffset, vpAnd(g.fieldsIndexOffset == f.fieldsIndexOffset,
		vpAnd(g.docValueOffset == f.docValueOffset, g.chunkMode == f.chunkMode))))
	vpAssert(ok, "parse(persist(f)) == f")
	vpAssert(g.version == 2, "version 2")
	// layout of the README: numDocs@0 stored@8 fields@16 docValue@24 chunkMode@32 version@36 crc@40, big endian
	ft := b[3:]
	vpAssert(ft[7] == byte(f.numDocs) && ft[0] == byte(f.numDocs>>56), "numDocs at offset 0, big endian")
	vpAssert(ft[15] == byte(f.storedIndexOffset) && ft[23] == byte(f.fieldsIndexOffset) && ft[31] == byte(f.docValueOffset), "offsets at 8, 16, 24")
	vpAssert(ft[35] == byte(f.chunkMode) && ft[39] == 2 && ft[36] == 0, "chunk mode at 32, version at 36")
	// another version is rejected, short data is rejected
	v := vpU32("otherVersion")
	vpAssume(v != 2)
	c := append([]byte(nil), b...)
	c[len(c)-8], c[len(c)-7], c[len(c)-6], c[len(c)-5] = byte(v>>24), byte(v>>16), byte(v>>8), byte(v)
	_, err = parseFooter(segment.NewDataBytes(c))
	vpAssert(err != nil, "unsupported version is rejected")
	_, err = parseFooter(segment.NewDataBytes(b[len(b)-43:]))
	vpAssert(err != nil, "data shorter than a footer is rejected")
	vpReach("K7 end")
}
