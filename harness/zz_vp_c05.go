//go:build verif

package ice

import (
	"github.com/RoaringBitmap/roaring"
	segment "github.com/blugelabs/bluge_segment_api"
)

func init() { vpRegister("vpH_C05_manyfields", vpH_C05_manyfields) }

func init() {
	vpRegister("vpH_C05_iter", vpH_C05_iter)
	vpRegister("vpH_C05_onehit", vpH_C05_onehit)
	vpRegister("vpH_C05_replace", vpH_C05_replace)
}

// vpIterDocs builds n documents; document d carries term "x" in field "a" iff
// present[d]; with one location iff withLocs[d].  Values are distinct
// functions of d so that any mix-up between documents is visible.
func vpIterDocs(n int, present, withLocs []bool) []*vpDoc {
	var ds []*vpDoc
	for d := 0; d < n; d++ {
		doc := &vpDoc{}
		if present[d] {
			t := &vpTerm{term: []byte("x"), freq: 2 + d}
			if withLocs[d] {
				t.freq = 1
				t.locs = []*vpLoc{{field: "", pos: 10 + d, start: 20 + d, end: 30 + d}}
				if d%2 == 1 {
					t.freq = 2
					t.locs = append(t.locs, &vpLoc{field: "", pos: 40 + d, start: 50 + d, end: 60 + d})
				}
			}
			doc.fields = append(doc.fields, &vpField{name: "a", length: 3 + d, terms: []*vpTerm{t, {term: []byte("k"), freq: 1}}})
		} else {
			doc.fields = append(doc.fields, &vpField{name: "a", length: 1, terms: []*vpTerm{{term: []byte("k"), freq: 1}}})
		}
		ds = append(ds, doc)
	}
	return ds
}

func vpSubset(tag string, n int, nonEmpty bool) []bool {
	out := make([]bool, n)
	lo := 0
	if nonEmpty {
		lo = 1
	}
	k := lo + vpChoice(tag, (1<<uint(n))-lo)
	for i := 0; i < n; i++ {
		out[i] = k&(1<<uint(i)) != 0
	}
	return out
}

// vpCheckPosting asserts the posting carries exactly document d's data for the flags in use.
func vpCheckPosting(p segment.Posting, exp *vpExpect, flags int) {
	d := p.Number()
	var want *vpXPosting
	for k := range exp.post["a"]["x"] {
		if exp.post["a"]["x"][k].doc == d {
			want = &exp.post["a"]["x"][k]
		}
	}
	vpAssert(want != nil, "returned document has the term")
	if want == nil {
		return
	}
	if flags >= 1 {
		vpAssert(p.Frequency() == want.freq, "frequency belongs to the returned document")
		vpAssert(vpNormOf(p) == want.normBits, "norm belongs to the returned document")
	}
	if flags >= 2 {
		locs := p.Locations()
		vpAssert(len(locs) == len(want.locs), "number of locations of the returned document")
		if len(locs) == len(want.locs) {
			for j, l := range locs {
				w := want.locs[j]
				vpAssert(l.Field() == w.field && l.Pos() == w.pos && l.Start() == w.start && l.End() == w.end, "locations belong to the returned document")
			}
		}
	}
}

// vpDriveIterator performs `ops` Next/Advance(d) calls (d symbolic) and checks
// each result against the specification over the live set.
func vpDriveIterator(it segment.PostingsIterator, live []bool, exp *vpExpect, flags, ops int) {
	n := len(live)
	last := -1 // last returned document
	lastTarget := uint64(0)
	ended := false
	for k := 0; k < ops; k++ {
		var p segment.Posting
		var err error
		var d uint64
		if vpChoice("op", 2) == 0 {
			p, err = it.Next()
			d = 0
		} else {
			d = vpRange("target", 0, uint64(n)+1)
			// contract: targets are non-decreasing and beyond the last returned document
			vpAssume(d >= lastTarget)
			vpAssume(int64(d) > int64(last))
			lastTarget = d
			p, err = it.Advance(d)
		}
		vpMust(err, "iterator call")
		if ended {
			vpAssert(p == nil, "nil is absorbing")
			continue
		}
		if p == nil {
			ended = true
			ok := true
			for q := last + 1; q < n; q++ {
				if live[q] {
					ok = vpAnd(ok, uint64(q) < d)
				}
			}
			vpAssert(ok, "nil only when no live posting >= target remains")
			continue
		}
		r := int(p.Number())
		vpAssert(r > last && r < n && live[r], "result is a live posting after the last one")
		vpAssert(uint64(r) >= d, "result >= target")
		ok := true
		for q := last + 1; q < r && q < n; q++ {
			if live[q] {
				ok = vpAnd(ok, uint64(q) < d)
			}
		}
		vpAssert(ok, "no earlier live posting >= target was skipped")
		vpCheckPosting(p, exp, flags)
		last = r
	}
}

// C05: general postings lists.
func vpH_C05_iter() {
	n := 4
	ops := 2
	if vpThorough() {
		n = 5
		ops = 3
	}
	present := vpSubset("present", n, true)
	withLocs := make([]bool, n)
	switch vpChoice("locs", 3) {
	case 1:
		for i := range withLocs {
			withLocs[i] = true
		}
	case 2:
		for i := range withLocs {
			withLocs[i] = i%2 == 0
		}
	}
	docs := vpIterDocs(n, present, withLocs)
	modes := []uint32{1025, 2, 1, 3}
	if vpThorough() {
		modes = []uint32{1025, 2, 1}
	}
	mode := modes[vpChoice("mode", len(modes))]
	seg := vpBuild(docs, mode)
	exp := vpBuildExpect(docs, nil)
	// exclusion: nil or any subset of the universe (thorough, 5 documents: subsets of size <= 2 and the full set)
	var except *roaring.Bitmap
	live := append([]bool(nil), present...)
	if vpChoice("has-except", 2) == 1 {
		ex := vpSubset("except", n, false)
		if vpThorough() {
			cnt := 0
			for _, e := range ex {
				if e {
					cnt++
				}
			}
			vpAssume(cnt <= 2 || cnt == n)
		}
		except = roaring.New()
		for i, e := range ex {
			if e {
				except.Add(uint32(i))
				live[i] = false
			}
		}
	}
	flags := vpChoice("flags", 3) // 0 none, 1 freq+norm, 2 +locations
	d, err := seg.Dictionary("a")
	vpMust(err, "Dictionary")
	pl, err := d.PostingsList([]byte("x"), except, nil)
	vpMust(err, "PostingsList")
	cnt := 0
	for _, l := range live {
		if l {
			cnt++
		}
	}
	vpAssert(pl.Count() == uint64(cnt), "Count equals the number of non-excluded postings")
	it, err := pl.Iterator(flags >= 1, flags >= 1, flags >= 2, nil)
	vpMust(err, "Iterator")
	vpAssert(it.Count() == uint64(cnt), "iterator Count")
	vpDriveIterator(it, live, exp, flags, ops)
	vpReach("C05 iter end")
}

// C05 on a 1-hit encoded list (merged segment, single document, freq 1, no locations).
func vpH_C05_onehit() {
	n := 3
	hit := vpChoice("hit", n)
	present := make([]bool, n)
	present[hit] = true
	docs := vpIterDocs(n, present, make([]bool, n))
	docs[hit].fields[0].terms[0].freq = 1
	seg := vpBuild(docs, 1025)
	mb, _ := vpMergeBytes([]*Segment{seg}, []*roaring.Bitmap{nil}, 1025)
	m := vpLoad(mb)
	exp := vpBuildExpect(docs, nil)
	var except *roaring.Bitmap
	live := append([]bool(nil), present...)
	if vpChoice("has-except", 2) == 1 {
		ex := vpSubset("except", n, false)
		except = roaring.New()
		for i, e := range ex {
			if e {
				except.Add(uint32(i))
				live[i] = false
			}
		}
	}
	flags := vpChoice("flags", 3)
	d, err := m.Dictionary("a")
	vpMust(err, "Dictionary")
	pl, err := d.PostingsList([]byte("x"), except, nil)
	vpMust(err, "PostingsList")
	plx := pl.(*PostingsList)
	vpAssert(plx.normBits1Hit != 0, "list is 1-hit encoded")
	cnt := 0
	if live[hit] {
		cnt = 1
	}
	vpAssert(pl.Count() == uint64(cnt), "Count of a 1-hit list")
	it, err := pl.Iterator(flags >= 1, flags >= 1, flags >= 2, nil)
	vpMust(err, "Iterator")
	vpDriveIterator(it, live, exp, flags, 3)
	if vpChoice("then-general-list", 2) == 1 {
		// the iterator that served the 1-hit list is handed back as the
		// preallocated iterator of a general-encoded list (another segment)
		all := make([]bool, n)
		for i := range all {
			all[i] = true
		}
		docs2 := vpIterDocs(n, all, make([]bool, n))
		exp2 := vpBuildExpect(docs2, nil)
		seg2 := vpBuild(docs2, 1025)
		mb2, _ := vpMergeBytes([]*Segment{seg2}, []*roaring.Bitmap{nil}, 1025)
		d2, err := vpLoad(mb2).Dictionary("a")
		vpMust(err, "Dictionary")
		pl2, err := d2.PostingsList([]byte("x"), nil, nil)
		vpMust(err, "PostingsList")
		vpAssert(pl2.Count() == uint64(n), "Count of the general list")
		it2, err := pl2.Iterator(flags >= 1, flags >= 1, flags >= 2, it)
		vpMust(err, "Iterator")
		vpDriveIterator(it2, all, exp2, flags, 1)
		vpReach("C05 general list after a 1-hit list")
	}
	vpReach("C05 onehit end")
}

// C05 with a replaced actual bitmap (subset of the postings), installed before the first call.
func vpH_C05_replace() {
	n := 4
	present := vpSubset("present", n, true)
	docs := vpIterDocs(n, present, make([]bool, n))
	mode := []uint32{1025, 2, 1}[vpChoice("mode", 3)]
	seg := vpBuild(docs, mode)
	exp := vpBuildExpect(docs, nil)
	sub := vpSubset("actual", n, false)
	abm := roaring.New()
	live := make([]bool, n)
	for i := range sub {
		if sub[i] && present[i] {
			abm.Add(uint32(i))
			live[i] = true
		}
	}
	flags := vpChoice("flags", 3)
	d, err := seg.Dictionary("a")
	vpMust(err, "Dictionary")
	pl, err := d.PostingsList([]byte("x"), nil, nil)
	vpMust(err, "PostingsList")
	it, err := pl.Iterator(flags >= 1, flags >= 1, flags >= 2, nil)
	vpMust(err, "Iterator")
	opt, ok := it.(segment.OptimizablePostingsIterator)
	vpAssert(ok, "iterator is optimizable")
	opt.ReplaceActual(abm)
	vpDriveIterator(it, live, exp, flags, 2)
	vpReach("C05 replace end")
}

// C05 on a segment with more than 128 fields (field numbers of one and of two
// varint bytes): a composite field whose locations name a low- and a
// high-numbered field; postings are skipped (Advance, exclusion) before the
// locations of a later posting in the same chunk are read.  Built and merged.
func vpH_C05_manyfields() {
	var docs []*vpDoc
	for d := 0; d < 3; d++ {
		doc := &vpDoc{}
		for f := 0; f < 140; f++ {
			doc.fields = append(doc.fields, &vpField{name: "f" + vpItoa(1000+f), length: 1, terms: []*vpTerm{{term: []byte("t"), freq: 1}}})
		}
		doc.fields = append(doc.fields, &vpField{name: "zzc", length: 2, terms: []*vpTerm{{term: []byte("x"), freq: 2,
			locs: []*vpLoc{{field: "f1003", pos: 1 + d, start: 10 + d, end: 20 + d}, {field: "f1135", pos: 5 + d, start: 30 + d, end: 40 + d}}}}})
		docs = append(docs, doc)
	}
	seg := vpBuild(docs, 1025)
	if vpChoice("merged", 2) == 1 {
		mb, _ := vpMergeBytes([]*Segment{seg}, []*roaring.Bitmap{nil}, 1025)
		seg = vpLoad(mb)
	}
	exp := vpBuildExpect(docs, nil)
	want := exp.post["zzc"]["x"]
	d, err := seg.Dictionary("zzc")
	vpMust(err, "Dictionary")
	var except *roaring.Bitmap
	target := uint64(1 + vpChoice("advance-to", 2))
	if vpChoice("skip-by-exclusion", 2) == 1 {
		except = roaring.New()
		for i := uint64(0); i < target; i++ {
			except.Add(uint32(i))
		}
		target = 0
	}
	pl, err := d.PostingsList([]byte("x"), except, nil)
	vpMust(err, "PostingsList")
	it, err := pl.Iterator(true, true, true, nil)
	vpMust(err, "Iterator")
	p, err := it.Advance(target)
	vpMust(err, "Advance")
	for p != nil {
		w := want[p.Number()]
		vpAssert(p.Frequency() == w.freq && len(p.Locations()) == len(w.locs), "many fields: frequency and number of locations of the returned document")
		if len(p.Locations()) == len(w.locs) {
			for i, l := range p.Locations() {
				vpAssert(l.Field() == w.locs[i].field && l.Pos() == w.locs[i].pos && l.Start() == w.locs[i].start && l.End() == w.locs[i].end, "many fields: locations belong to the returned document")
			}
		}
		p, err = it.Next()
		vpMust(err, "Next")
	}
	vpReach("C05 manyfields end")
}
