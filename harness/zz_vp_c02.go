//go:build verif

package ice

import (
	"bytes"
	"math"

	"github.com/RoaringBitmap/roaring"
	segment "github.com/blugelabs/bluge_segment_api"
)

func init() {
	vpRegister("vpH_C02_merge", vpH_C02_merge)
	vpRegister("vpH_C02_merge3", vpH_C02_merge3)
	vpRegister("vpH_C03_docnums", vpH_C03_docnums)
	vpRegister("vpH_T_merge_concrete", vpH_T_merge_concrete)
	vpRegister("vpH_C03_blocks", vpH_C03_blocks)
	vpRegister("vpH_C02_leftover", vpH_C02_leftover)
}

// vpDrops chooses a deletion bitmap for a segment of n docs: nil, empty, or
// any non-empty subset (all 2^n - 1 of them).
func vpDrops(tag string, n int) (*roaring.Bitmap, []bool) {
	dropped := make([]bool, n)
	k := vpChoice(tag+"-drops", 1+(1<<uint(n)))
	if k == 0 {
		return nil, dropped
	}
	bm := roaring.New()
	mask := k - 1
	for i := 0; i < n; i++ {
		if mask&(1<<uint(i)) != 0 {
			bm.Add(uint32(i))
			dropped[i] = true
		}
	}
	return bm, dropped
}

func vpSurvivors(batches [][]*vpDoc, dropped [][]bool) []*vpDoc {
	var out []*vpDoc
	for i, b := range batches {
		for j, d := range b {
			if !dropped[i][j] {
				out = append(out, d)
			}
		}
	}
	return out
}

var vpMergeTemplates = []int{1, 2, 3, 5, 7, 9, 10}

// vpSegOf turns a batch into a segment: built in memory, or persisted and loaded.
func vpSegOf(tag string, docs []*vpDoc, mode uint32) *Segment {
	seg := vpBuild(docs, mode)
	if vpChoice(tag+"-loaded", 2) == 1 {
		return vpLoad(vpPersist(seg))
	}
	return seg
}

func vpMergeCheck(g *vpGen, batches [][]*vpDoc, segs []*Segment, tag string) {
	vpMergeCheckMode(g, batches, segs, tag, 0)
}

func vpMergeCheckMode(g *vpGen, batches [][]*vpDoc, segs []*Segment, tag string, outMode uint32) {
	vpMergeCheckFields(g, batches, segs, tag, outMode, nil)
}

// vpMergeCheckFields: extraFields are field names that inputs carry without any
// surviving document (leftovers of an earlier merge): they stay in the merged field list.
func vpMergeCheckFields(g *vpGen, batches [][]*vpDoc, segs []*Segment, tag string, outMode uint32, extraFields []string) {
	drops := make([]*roaring.Bitmap, len(segs))
	dropped := make([][]bool, len(segs))
	for i := range segs {
		drops[i], dropped[i] = vpDrops(tag, len(batches[i]))
	}
	surv := vpSurvivors(batches, dropped)
	vpAssume(len(surv) > 0) // zero survivors: C03 / C04
	g.done()
	if outMode == 0 {
		outMode = g.mode(tag + "-out")
	}
	b, _ := vpMergeBytes(segs, drops, outMode)
	m := vpLoad(b)
	exp := vpBuildExpect(surv, append(vpFieldNames(batches...), extraFields...))
	obs := vpObserve(m, []string{"zz"}, []string{"q"})
	vpMatchesModel("merged", obs, exp, vpMatchOpts{merged: true, skipStats: vpSkipMergedStats})
}

type vpMergeCfg struct {
	modeA, modeB, out uint32
	loadA, loadB      bool
}

// input/output chunk modes and built/loaded inputs are covered pairwise, not crossed
var vpMergeCfgs = []vpMergeCfg{
	{1025, 1025, 1025, false, false},
	{1, 2, 1, true, false},
	{2, 1, 3, false, true},
	{3, 1025, 2, true, true},
}

func vpSegCfg(docs []*vpDoc, mode uint32, loaded bool) *Segment {
	seg := vpBuild(docs, mode)
	if loaded {
		return vpLoad(vpPersist(seg))
	}
	return seg
}

// C02: two segments (A 1..2 docs, B 0..1 doc; thorough: B 0..2 and all merge
// templates), every deletion bitmap, two (thorough: four) input/output configurations.
func vpH_C02_merge() {
	g := vpNewGen(0)
	maxB := 1
	tpl, tplB := []int{2, 5, 7}, []int{2, 5}
	ncfg := 2
	if vpThorough() {
		maxB = 2
		tpl, tplB = vpMergeTemplates, []int{2, 3, 5, 10}
		ncfg = len(vpMergeCfgs)
	}
	a := g.batch("A", 1, 2, tpl)
	b := g.batch("B", 0, maxB, tplB)
	vpSetLengths(a)
	vpSetLengths(b)
	cfg := vpMergeCfgs[vpChoice("cfg", ncfg)]
	sa := vpSegCfg(a, cfg.modeA, cfg.loadA)
	sb := vpSegCfg(b, cfg.modeB, cfg.loadB)
	vpMergeCheckMode(g, [][]*vpDoc{a, b}, []*Segment{sa, sb}, "m", cfg.out)
	vpReach("C02 merge end")
}

// C02 with three single-document segments, one of which may be a previous merge output.
func vpH_C02_merge3() {
	g := vpNewGen(0)
	tpl := []int{2, 5, 7}
	if vpThorough() {
		tpl = vpMergeTemplates
	}
	a := g.batch("A", 1, 1, tpl)
	b := g.batch("B", 1, 1, tpl)
	tplC := []int{5}
	if vpThorough() {
		tplC = tpl
	}
	c := g.batch("C", 0, 1, tplC)
	vpSetLengths(a)
	vpSetLengths(b)
	vpSetLengths(c)
	sa := vpBuild(a, 1)
	if vpChoice("A-premerged", 2) == 1 {
		// identity merge first: the input is itself a merge output (1-hit encodings etc.)
		mb, _ := vpMergeBytes([]*Segment{sa}, []*roaring.Bitmap{nil}, 1025)
		sa = vpLoad(mb)
	}
	sb := vpBuild(b, 1025)
	sc := vpBuild(c, 1)
	out := []uint32{1025, 1}[vpChoice("out", 2)]
	vpMergeCheckMode(g, [][]*vpDoc{a, b, c}, []*Segment{sa, sb, sc}, "m", out)
	vpReach("C02 merge3 end")
}

// C03: DocumentNumbers() through the public Merge API.
func vpH_C03_docnums() {
	g := vpNewGen(0)
	k := 1 + vpChoice("nsegs", 3)
	maxDocs := 2
	if !vpThorough() && k == 3 {
		maxDocs = 1 // quick: three segments of at most one document
	}
	var batches [][]*vpDoc
	var segs []segment.Segment
	for i := 0; i < k; i++ {
		b := g.batch("S", 0, maxDocs, []int{1, 5})
		vpSetLengths(b)
		batches = append(batches, b)
		segs = append(segs, vpBuild(b, 1025))
	}
	// the first input may itself be the output of an earlier merge that deleted
	// one of its documents (fields may then exist without any term)
	if len(batches[0]) == 2 && vpChoice("first-input-premerged", 2) == 1 {
		dr := roaring.New()
		dr.Add(uint32(vpChoice("premerge-drop", 2)))
		keep := 1
		if dr.Contains(1) {
			keep = 0
		}
		mb, _ := vpMergeBytes([]*Segment{segs[0].(*Segment)}, []*roaring.Bitmap{dr}, 1025)
		segs[0] = vpLoad(mb)
		batches[0] = []*vpDoc{batches[0][keep]}
		vpReach("C03 premerged input")
	}
	drops := make([]*roaring.Bitmap, k)
	dropped := make([][]bool, k)
	for i := range segs {
		drops[i], dropped[i] = vpDrops("S", len(batches[i]))
	}
	g.done()
	bufSize := []int{0, 1}[vpChoice("bufsize", 2)]
	mg := Merge(segs, drops, bufSize)
	var buf bytes.Buffer
	n, err := mg.WriteTo(&buf, nil)
	vpMust(err, "Merger.WriteTo")
	vpAssert(n == int64(buf.Len()), "Merger.WriteTo returns the number of bytes written")
	dn := mg.DocumentNumbers()
	vpAssert(len(dn) == k, "DocumentNumbers has one slice per input segment")
	next := uint64(0)
	if len(dn) == k {
		for i := range batches {
			vpAssert(len(dn[i]) == len(batches[i]), "DocumentNumbers[i] has one entry per document")
			if len(dn[i]) != len(batches[i]) {
				continue
			}
			for j := range batches[i] {
				if dropped[i][j] {
					vpAssert(dn[i][j] == math.MaxInt64, "dropped document maps to the sentinel")
				} else {
					vpAssert(dn[i][j] == next, "survivors are numbered consecutively")
					next++
				}
			}
		}
	}
	surv := vpSurvivors(batches, dropped)
	if len(surv) == 0 {
		vpReach("C03 zero survivors")
		vpNote("feat:zero-survivors")
	}
	m := vpLoad(buf.Bytes())
	vpAssert(m.Count() == uint64(len(surv)), "merged Count equals the number of survivors")
	// the content of every surviving old document is at its reported new number
	if len(dn) == k {
		for i := range batches {
			for j, d := range batches[i] {
				if dropped[i][j] || len(dn[i]) != len(batches[i]) {
					continue
				}
				var id []byte
				for _, f := range d.fields {
					if f.name == "_id" {
						id = f.value
					}
				}
				var got []byte
				err := m.VisitStoredFields(dn[i][j], func(field string, value []byte) bool {
					if field == "_id" {
						got = append([]byte(nil), value...)
					}
					return true
				})
				vpMust(err, "VisitStoredFields")
				vpAssert(bytes.Equal(got, id), "old document found at its new number")
				// ... and so are its postings: every (field, term) of the old document lists the new number
				for _, f := range d.fields {
					dict, err := m.Dictionary(f.name)
					vpMust(err, "Dictionary")
					for _, t := range f.terms {
						pl, err := dict.PostingsList(t.term, nil, nil)
						vpMust(err, "PostingsList")
						it, err := pl.Iterator(false, false, false, nil)
						vpMust(err, "Iterator")
						p, err := it.Advance(dn[i][j])
						vpMust(err, "Advance")
						vpAssert(p != nil && p.Number() == dn[i][j], "old document's terms are posted at its new number")
					}
				}
			}
		}
	}
	vpReach("C03 end")
}

// concrete engine-vs-native self check of the merge path
func vpH_T_merge_concrete() {
	docs := vpSampleDocs()
	a := vpBuild(docs, 1025)
	b := vpBuild(docs[:2], 2)
	dr := roaring.New()
	dr.Add(1)
	for _, mode := range []uint32{1025, 1} {
		mb, dn := vpMergeBytes([]*Segment{a, b}, []*roaring.Bitmap{dr, nil}, mode)
		vpAssert(len(dn) == 2 && len(dn[0]) == 3 && len(dn[1]) == 2, "docnums shape")
		m := vpLoad(mb)
		surv := []*vpDoc{docs[0], docs[2], docs[0], docs[1]}
		exp := vpBuildExpect(surv, nil)
		obs := vpObserve(m, []string{"nofield"}, []string{"zzz"})
		vpMatchesModel("merged", obs, exp, vpMatchOpts{merged: true, skipStats: true, skipCount: true})
	}
	vpReach("merge concrete end")
}

// merged statistics are the subject of C16; its defect is repaired (see known_findings.json), so the
// other merge harnesses compare them too
var vpSkipMergedStats = false

// vpNumberedDocs: n documents with _id "k<number>" (stored) and one stored value
// in field "s" for every third document; identical field lists in every segment.
func vpNumberedDocs(prefix string, n int) []*vpDoc {
	var ds []*vpDoc
	for d := 0; d < n; d++ {
		id := []byte(prefix + string([]byte{byte('0' + d/100), byte('0' + d/10%10), byte('0' + d%10)}))
		doc := &vpDoc{fields: []*vpField{{name: "_id", store: true, value: id, length: 1, terms: []*vpTerm{{term: id, freq: 1}}}}}
		v := []byte{byte('A' + d%26)}
		doc.fields = append(doc.fields, &vpField{name: "s", store: true, value: v, length: 1, terms: []*vpTerm{{term: []byte("t"), freq: 1}}})
		ds = append(ds, doc)
	}
	return ds
}

// C03 at the 128-document stored-block boundary: a segment of 127 / 128 / 129 /
// 256 documents with one deleted document (first, last of the first block,
// last) or none, merged with a small segment of the same field list, before or
// after it: mapping, Count, and the content found at selected new numbers.
func vpH_C03_blocks() {
	n := []int{128, 256, 127, 129}[vpChoice("size", 4)]
	big := vpNumberedDocs("a", n)
	small := vpNumberedDocs("b", 2)
	sb, ss := vpBuild(big, 1025), vpBuild(small, 1025)
	var dr *roaring.Bitmap
	del := -1
	switch vpChoice("deleted", 4) {
	case 1:
		del = 0
	case 2:
		del = 127
		if del >= n {
			del = n - 1
		}
	case 3:
		del = n - 1
	}
	if del >= 0 {
		dr = roaring.New()
		dr.Add(uint32(del))
	}
	segs := []segment.Segment{sb, ss}
	drops := []*roaring.Bitmap{dr, nil}
	batches := [][]*vpDoc{big, small}
	bigIdx := 0
	if vpChoice("big-last", 2) == 1 {
		segs = []segment.Segment{ss, sb}
		drops = []*roaring.Bitmap{nil, dr}
		batches = [][]*vpDoc{small, big}
		bigIdx = 1
	}
	mg := Merge(segs, drops, 0)
	var buf bytes.Buffer
	_, err := mg.WriteTo(&buf, nil)
	vpMust(err, "Merger.WriteTo")
	dn := mg.DocumentNumbers()
	vpAssert(len(dn) == 2 && len(dn[0]) == len(batches[0]) && len(dn[1]) == len(batches[1]), "DocumentNumbers has one entry per input document")
	if !(len(dn) == 2 && len(dn[0]) == len(batches[0]) && len(dn[1]) == len(batches[1])) {
		return
	}
	next := uint64(0)
	for i := range batches {
		for j := range batches[i] {
			if i == bigIdx && j == del {
				vpAssert(dn[i][j] == math.MaxInt64, "dropped document maps to the sentinel")
			} else {
				vpAssert(dn[i][j] == next, "survivors are numbered consecutively")
				next++
			}
		}
	}
	m := vpLoad(buf.Bytes())
	vpAssert(m.Count() == next, "merged Count equals the number of survivors")
	// content at the reported numbers: around the block boundaries and at both ends
	probe := func(i, j int) {
		if j < 0 || j >= len(batches[i]) || (i == bigIdx && j == del) {
			return
		}
		var id, val []byte
		err := m.VisitStoredFields(dn[i][j], func(field string, value []byte) bool {
			if field == "_id" {
				id = append([]byte(nil), value...)
			} else {
				val = append([]byte(nil), value...)
			}
			return true
		})
		vpMust(err, "VisitStoredFields")
		vpAssert(bytes.Equal(id, batches[i][j].fields[0].value) && bytes.Equal(val, batches[i][j].fields[1].value), "old document found at its new number")
		dict, err := m.Dictionary("_id")
		vpMust(err, "Dictionary")
		pl, err := dict.PostingsList(batches[i][j].fields[0].value, nil, nil)
		vpMust(err, "PostingsList")
		it, err := pl.Iterator(false, false, false, nil)
		vpMust(err, "Iterator")
		p, err := it.Next()
		vpMust(err, "Next")
		vpAssert(p != nil && p.Number() == dn[i][j], "old document's _id is posted at its new number")
	}
	for _, j := range []int{0, 1, 126, 127, 128, 129, 255, n - 2, n - 1} {
		probe(bigIdx, j)
	}
	probe(1-bigIdx, 0)
	probe(1-bigIdx, 1)
	vpReach("C03 blocks end")
}

// C02 with inputs that carry leftovers of documents deleted by an earlier
// merge: a second-generation input whose field table still lists a field
// (sorting between the others) that none of its documents has, or a
// zero-document second-generation input carrying such a field, first or last.
func vpH_C02_leftover() {
	g := vpNewGen(0)
	a := g.batch("A", 1, 2, []int{2, 5})
	b := g.batch("B", 1, 1, []int{5})
	vpSetLengths(a)
	vpSetLengths(b)
	sa, sb := vpBuild(a, 1025), vpBuild(b, 1025)
	extra := []*vpDoc{{fields: []*vpField{
		{name: "_id", store: true, value: []byte("e0"), length: 1, terms: []*vpTerm{{term: []byte("e0"), freq: 1}}},
		{name: "aa", store: true, dv: true, value: []byte("v"), length: 1, terms: []*vpTerm{{term: []byte("k"), freq: 1}}}}}}
	se := vpBuild(extra, 1025)
	all := roaring.New()
	all.Add(0)
	batches := [][]*vpDoc{a, b}
	segs := []*Segment{sa, sb}
	switch vpChoice("leftover", 4) {
	case 0:
		mb, _ := vpMergeBytes([]*Segment{sa, se}, []*roaring.Bitmap{nil, all}, 1025)
		segs[0] = vpLoad(mb)
		vpReach("C02 leftover field in the first input")
	case 1:
		mb, _ := vpMergeBytes([]*Segment{se, sb}, []*roaring.Bitmap{all, nil}, 1025)
		segs[1] = vpLoad(mb)
		vpReach("C02 leftover field in the second input")
	case 2:
		mb, _ := vpMergeBytes([]*Segment{se}, []*roaring.Bitmap{all}, 1025)
		batches = [][]*vpDoc{nil, a, b}
		segs = []*Segment{vpLoad(mb), sa, sb}
		vpReach("C02 empty second-generation input first")
	default:
		mb, _ := vpMergeBytes([]*Segment{se}, []*roaring.Bitmap{all}, 1025)
		batches = [][]*vpDoc{a, b, nil}
		segs = []*Segment{sa, sb, vpLoad(mb)}
		vpReach("C02 empty second-generation input last")
	}
	vpMergeCheckFields(g, batches, segs, "m", 1025, []string{"aa"})
	vpReach("C02 leftover end")
}
