//go:build verif

package ice

import (
	"bytes"
	"math"

	"github.com/RoaringBitmap/roaring"
	segment "github.com/blugelabs/bluge_segment_api"
)

func init() {
	vpRegister("vpH_C14_pool", vpH_C14_pool)
	vpRegister("vpH_C14_maporder", vpH_C14_maporder)
	vpRegister("vpH_C14_bigpool", vpH_C14_bigpool)
	vpRegister("vpH_C15_frozen", vpH_C15_frozen)
	vpRegister("vpH_C15_bigdrops", vpH_C15_bigdrops)
}

func vpBuildBytes(docs []*vpDoc, mode uint32) []byte {
	s, n, err := newWithChunkMode(vpDocs(docs), vpNormCalc, mode)
	vpMust(err, "newWithChunkMode")
	b := vpPersist(s)
	vpAssert(n+uint64(footerLen) == uint64(len(b)), "New reports the size of the data section")
	return b
}

// C14: New(B) after New(A) through the recycled builder state equals New(B) on fresh state.
func vpH_C14_pool() {
	g := vpNewGen(0)
	tpl := []int{2, 4, 5, 7}
	if vpThorough() {
		tpl = vpAllTemplates()
	}
	a := g.batch("A", 0, 2, tpl)
	b := g.batch("B", 0, 2, tpl)
	g.done()
	if vpChoice("A-has-an-early-field", 2) == 1 {
		// a field that sorts before every other one: the field numbers of A and B differ
		a = append(a, &vpDoc{fields: []*vpField{{name: "0a", length: 1, terms: []*vpTerm{{term: []byte("k"), freq: 1}}}}})
	}
	modeA, modeB := uint32(1025), uint32(1)
	if vpChoice("modes", 2) == 1 {
		modeA, modeB = 2, 1025
	}
	// a failed build in between (unknown chunk mode) must not matter either
	failed := vpChoice("failed-build-between", 2) == 1
	// the reference build runs on a builder fresh from New(): every pool is flushed first
	vpPoolReuse(true)
	vpPoolFlush()
	fresh := vpBuildBytes(b, modeB)
	if vpChoice("flush-between", 2) == 1 {
		// history "New(), A, B" instead of "New(), B, A, B"
		vpPoolFlush()
	}
	if vpChoice("other-norm-before", 2) == 1 {
		// the preceding build may use another norm function: only the norm
		// function of THIS build may matter
		other := func(field string, length int) float32 {
			return math.Float32frombits(vpNormBits(field, length) + 0x00400000)
		}
		s, _, err := newWithChunkMode(vpDocs(a), other, modeA)
		vpMust(err, "newWithChunkMode")
		vpPersist(s)
	} else {
		vpBuildBytes(a, modeA)
	}
	if failed {
		_, _, _ = newWithChunkMode(vpDocs(a), vpNormCalc, 5000) // unknown chunk mode: fails when a term is encoded
	}
	again := vpBuildBytes(b, modeB)
	vpAssert(len(fresh) == len(again), "same size whatever was built before")
	vpAssert(vpBytesEq(fresh, again), "same bytes whatever was built before")
	vpPoolReuse(false)
	vpReach("C14 pool end")
}

// C14: the bytes do not depend on map iteration order.
func vpH_C14_maporder() {
	g := vpNewGen(0)
	docs := g.batch("b", 1, 2, vpAllTemplates())
	g.done()
	mode := g.mode("b")
	vpMapReverse(false)
	x := vpBuildBytes(docs, mode)
	vpMapReverse(true)
	y := vpBuildBytes(docs, mode)
	vpMapReverse(false)
	vpAssert(len(x) == len(y) && vpBytesEq(x, y), "same bytes under any map iteration order")
	vpReach("C14 maporder end")
}

// C15: one operation on a segment (and on caller-owned bitmaps) leaves every
// observation, the persisted bytes and the bitmaps unchanged.
func vpH_C15_frozen() {
	g := vpNewGen(0)
	docs := vpC09Docs(g)
	if vpThorough() && vpChoice("docset", 2) == 1 {
		docs = []*vpDoc{g.doc(8, 0), g.doc(6, 1), g.doc(4, 2), g.doc(7, 3)}
	}
	seg := vpBuild(docs, []uint32{1025, 2, 1}[vpChoice("mode", 3)])
	switch vpChoice("kind", 3) {
	case 1:
		seg = vpLoad(vpPersist(seg))
	case 2:
		mb, _ := vpMergeBytes([]*Segment{seg}, []*roaring.Bitmap{nil}, 1025)
		seg = vpLoad(mb)
	}
	before := vpPersist(seg)
	obsBefore := vpObserve(seg, []string{"zz"}, []string{"q"})
	bm := roaring.New()
	bmWant := []uint32{}
	for i, on := range vpSubset("bitmap", 3, false) {
		if on {
			bm.Add(uint32(i))
			bmWant = append(bmWant, uint32(i))
		}
	}
	k := vpChoice("op", len(vpReadOpNames)+5)
	switch {
	case k == len(vpReadOpNames)+4:
		// the caller folds collection statistics: Merge adds into the value the
		// segment returned (for a field it has and for fields it lacks)
		vpNote("op:CollectionStats().Merge(other)")
		for _, f := range []string{"a", "zz", "nofield"} {
			st, err := seg.CollectionStats(f)
			vpMust(err, "CollectionStats")
			other, err := seg.CollectionStats("_id")
			vpMust(err, "CollectionStats")
			st.Merge(other)
		}
	case k >= len(vpReadOpNames)+2:
		// a merge in which the segment is the LAST / the FIRST input and another
		// input has a field the segment lacks, sorting between the segment's own
		// fields (the merged field list must not be built inside an input's own
		// field table, whose backing array may have spare capacity)
		other := []*vpDoc{{fields: []*vpField{{name: "aa", store: true, value: []byte("v"), length: 1, terms: []*vpTerm{{term: []byte("k"), freq: 1}}}}}}
		so := vpBuild(other, 1025)
		var buf bytes.Buffer
		var err error
		if k == len(vpReadOpNames)+2 {
			vpNote("op:Merge(other fields, segment last)")
			_, err = Merge([]segment.Segment{so, seg}, []*roaring.Bitmap{nil, bm}, 0).WriteTo(&buf, nil)
		} else {
			vpNote("op:Merge(other fields, segment first)")
			_, err = Merge([]segment.Segment{seg, so}, []*roaring.Bitmap{bm, nil}, 0).WriteTo(&buf, nil)
		}
		vpAssert(err == nil || len(bmWant) == 3, "merge succeeds")
	case k < len(vpReadOpNames):
		vpNote("op:" + vpReadOpNames[k])
		vpReadOp(k, seg)
	case k == len(vpReadOpNames):
		vpNote("op:PostingsList(except)")
		d, err := seg.Dictionary("a")
		vpMust(err, "Dictionary")
		pl, err := d.PostingsList([]byte("x"), bm, nil)
		vpMust(err, "PostingsList")
		it, err := pl.Iterator(true, true, true, nil)
		vpMust(err, "Iterator")
		for p, _ := it.Next(); p != nil; p, _ = it.Next() {
		}
		_ = pl.Count()
	default:
		vpNote("op:Merge(drops)")
		var buf bytes.Buffer
		mg := Merge([]segment.Segment{seg, seg}, []*roaring.Bitmap{bm, bm}, 0)
		_, err := mg.WriteTo(&buf, nil)
		vpAssert(err == nil || len(bmWant) == 3, "merge succeeds")
	}
	after := vpPersist(seg)
	vpAssert(len(before) == len(after) && vpBytesEq(before, after), "persisted bytes unchanged")
	vpSameObs("after the operation", obsBefore, vpObserve(seg, []string{"zz"}, []string{"q"}))
	got := bm.ToArray()
	same := len(got) == len(bmWant)
	if same {
		for i := range got {
			same = same && got[i] == bmWant[i]
		}
	}
	vpAssert(same, "caller's bitmap unchanged")
	vpReach("C15 frozen end")
}

// C15 with a LARGE caller-owned deletion bitmap (128 / 200 / 300 consecutive documents of
// a 300-document segment): after a merge (segment first or last) or a PostingsList with
// that bitmap as the exclusion set, the bitmap has the same members, the same
// serialised bytes and the same run-compression state as before - an implementation may
// not even re-encode (RunOptimize) what the caller handed in, since the caller may be
// reading it concurrently or persisting it.  The roaring model records RunOptimize
// calls; the native replay sees the real container conversion.
func vpH_C15_bigdrops() {
	docs := vpBigDocs(300, nil)
	seg := vpBuild(docs, 1025)
	n := []int{128, 200, 300}[vpChoice("drops", 3)]
	bm := roaring.New()
	for d := 0; d < n; d++ {
		bm.Add(uint32(d + (300-n)/2))
	}
	want := bm.ToArray()
	wantBytes, _ := bm.ToBytes()
	wantRun := bm.HasRunCompression()
	other := vpBuild([]*vpDoc{{fields: []*vpField{{name: "a", length: 1, terms: []*vpTerm{{term: []byte("x"), freq: 1}}}}}}, 1025)
	switch vpChoice("op", 3) {
	case 0:
		vpNote("op:Merge(segment first, big drops)")
		var buf bytes.Buffer
		_, err := Merge([]segment.Segment{seg, other}, []*roaring.Bitmap{bm, nil}, 0).WriteTo(&buf, nil)
		vpMust(err, "merge")
	case 1:
		vpNote("op:Merge(segment last, big drops)")
		var buf bytes.Buffer
		_, err := Merge([]segment.Segment{other, seg}, []*roaring.Bitmap{nil, bm}, 0).WriteTo(&buf, nil)
		vpMust(err, "merge")
	default:
		vpNote("op:PostingsList(big except)")
		d, err := seg.Dictionary("a")
		vpMust(err, "Dictionary")
		pl, err := d.PostingsList([]byte("x"), bm, nil)
		vpMust(err, "PostingsList")
		vpAssert(pl.Count() == uint64(300-n), "count excludes the bitmap")
		it, err := pl.Iterator(true, true, true, nil)
		vpMust(err, "Iterator")
		for p, _ := it.Next(); p != nil; p, _ = it.Next() {
		}
	}
	got := bm.ToArray()
	same := len(got) == len(want)
	if same {
		for i := range got {
			same = same && got[i] == want[i]
		}
	}
	vpAssert(same, "caller's big bitmap: members unchanged")
	vpAssert(bm.HasRunCompression() == wantRun, "caller's big bitmap: not re-encoded (run compression state unchanged)")
	gotBytes, _ := bm.ToBytes()
	vpAssert(len(gotBytes) == len(wantBytes) && vpBytesEq(gotBytes, wantBytes), "caller's big bitmap: serialised bytes unchanged")
	vpReach("C15 bigdrops end")
}

// C14 with a large batch in the history: a build of 1030 documents (two
// doc-value chunks, several postings chunks) leaves capacity in every pooled
// buffer; a small batch built afterwards equals its build on a fresh builder,
// and so does the large one after the small one.
func vpH_C14_bigpool() {
	var big []*vpDoc
	for d := 0; d < 1030; d++ {
		big = append(big, &vpDoc{fields: []*vpField{
			{name: "b", dv: true, store: d%100 == 0, value: []byte{byte(d)}, length: 1 + d%3, terms: []*vpTerm{{term: []byte{'t', byte('a' + d%5)}, freq: 1 + d%2}}}}})
	}
	small := []*vpDoc{
		{fields: []*vpField{{name: "b", dv: true, store: true, value: []byte("v"), length: 2, terms: []*vpTerm{{term: []byte("ta"), freq: 2}, {term: []byte("q"), freq: 1}}}}},
		{fields: []*vpField{{name: "c", dv: true, length: 1, terms: []*vpTerm{{term: []byte("x"), freq: 1, locs: []*vpLoc{{pos: 1, start: 2, end: 3}}}}}}},
	}
	first, second := big, small
	if vpChoice("order", 2) == 1 {
		first, second = small, big
	}
	mode := []uint32{1025, 1}[vpChoice("mode", 2)]
	vpPoolReuse(true)
	vpPoolFlush()
	fresh := vpBuildBytes(second, mode)
	vpPoolFlush()
	vpBuildBytes(first, mode)
	again := vpBuildBytes(second, mode)
	vpPoolReuse(false)
	vpAssert(len(fresh) == len(again), "same size after a build of another size")
	vpAssert(vpBytesEq(fresh, again), "same bytes after a build of another size")
	vpReach("C14 bigpool end")
}
