//go:build verif

package ice

import (
	"bytes"
	"github.com/RoaringBitmap/roaring"
	segment "github.com/blugelabs/bluge_segment_api"
)

func init() {
	vpRegister("vpH_C16_stats", vpH_C16_stats)
	vpRegister("vpH_C16_afterfail", vpH_C16_afterfail)
	vpRegister("vpH_C16_later", vpH_C16_later)
	vpRegister("vpH_C16_manyfields", vpH_C16_manyfields)
	vpRegister("vpH_C16_shift", vpH_C16_shift)
	vpRegister("vpH_K11_statsmerge", vpH_K11_statsmerge)
	vpRegister("vpH_C17_assoc", vpH_C17_assoc)
	vpRegister("vpH_C17_prefix", vpH_C17_prefix)
	vpRegister("vpH_C18_match", vpH_C18_match)
}

func vpStatsCheck(tag string, seg segment.Segment, exp *vpExpect, merged bool) {
	for _, f := range append(append([]string(nil), exp.fields...), "nofield") {
		st, err := seg.CollectionStats(f)
		vpMust(err, "CollectionStats")
		if _, known := exp.post[f]; !known {
			vpAssert(st.TotalDocumentCount() == 0 && st.DocumentCount() == 0 && st.SumTotalTermFrequency() == 0, tag+": unknown field has zero statistics")
			// the caller folds other statistics into the value it got: a later
			// request for an unknown field still reports zeros
			st.Merge(&CollectionStats{totalDocCount: 3, docCount: 2, sumTotalTermFreq: 5})
			st2, err := seg.CollectionStats(f)
			vpMust(err, "CollectionStats")
			vpAssert(st2.TotalDocumentCount() == 0 && st2.DocumentCount() == 0 && st2.SumTotalTermFrequency() == 0, tag+": unknown field has zero statistics (after the caller merged into an earlier result)")
			continue
		}
		vpAssert(st.TotalDocumentCount() == exp.count && st.TotalDocumentCount() == seg.Count(), tag+": TotalDocumentCount")
		if merged {
			vpAssert(st.DocumentCount() == exp.fdocsT[f], tag+": DocumentCount")
		} else {
			vpAssert(st.DocumentCount() == exp.fdocs[f], tag+": DocumentCount")
		}
		vpAssert(st.SumTotalTermFrequency() == exp.ffreqsT[f], tag+": SumTotalTermFrequency")
	}
}

// C16: statistics of built, loaded and merged segments; field length = sum of term frequencies.
// C16 after a failed merge: a merge of more documents into a writer that fails
// in the middle of the file, then the merge under test in the same process
// (recycled scratch state): its statistics describe its own documents only.
func vpH_C16_afterfail() {
	g := vpNewGen(0)
	a := []*vpDoc{g.doc(3, 0), g.doc(5, 1)}
	b := []*vpDoc{g.doc(5, 0)}
	g.done()
	vpSetLengths(a)
	vpSetLengths(b)
	sa, sb := vpBuild(a, 1025), vpBuild(b, 2)
	vpPoolReuse(true)
	big := []segment.Segment{sa, sb, sa, sa}
	var ref bytes.Buffer
	_, err := Merge(big, make([]*roaring.Bitmap, 4), 1).WriteTo(&ref, nil)
	vpMust(err, "fault-free merge")
	limit := uint64(ref.Len()) * uint64(2+vpChoice("fail-at", 3)) / 5
	fw := &vpFailWriter{limit: limit}
	_, err = Merge(big, make([]*roaring.Bitmap, 4), 1).WriteTo(fw, nil)
	vpAssert(err != nil, "a failing writer is reported as an error")
	drops := make([]*roaring.Bitmap, 2)
	dropped := make([][]bool, 2)
	drops[0], dropped[0] = vpDrops("m", len(a))
	drops[1], dropped[1] = vpDrops("m", len(b))
	surv := vpSurvivors([][]*vpDoc{a, b}, dropped)
	vpAssume(len(surv) > 0)
	mb, _ := vpMergeBytes([]*Segment{sa, sb}, drops, 1025)
	vpPoolReuse(false)
	vpNote("feat:merged-stats")
	vpStatsCheck("merged after a failed merge", vpLoad(mb), vpBuildExpect(surv, vpFieldNames(a, b)), true)
	vpReach("C16 afterfail end")
}

// C16 for a built segment that stays in memory while the pooled builder builds
// other batches: its statistics still describe its own documents.
func vpH_C16_later() {
	g := vpNewGen(0)
	a := g.batch("A", 1, 2, []int{3, 5, 10})
	g.done()
	vpSetLengths(a)
	vpPoolReuse(true)
	vpPoolFlush()
	sa := vpBuild(a, 1025)
	later := [][]*vpDoc{
		{{fields: []*vpField{{name: "a", length: 7, terms: []*vpTerm{{term: []byte("k"), freq: 7}}}}}, {fields: []*vpField{{name: "a", length: 1, terms: []*vpTerm{{term: []byte("k"), freq: 1}}}}}, {}},
		{{fields: []*vpField{{name: "zz", length: 2, terms: []*vpTerm{{term: []byte("k"), freq: 2}}}}}},
		{},
	}[vpChoice("later-batch", 3)]
	vpBuild(later, 1)
	vpPoolReuse(false)
	vpStatsCheck("built, after a later build", sa, vpBuildExpect(a, nil), false)
	vpReach("C16 later end")
}

// C16 for a batch with many fields (70 / 130 / 300 field names): statistics of
// every field, built, loaded and merged.
func vpH_C16_manyfields() {
	nf := []int{70, 130, 300}[vpChoice("fields", 3)]
	var docs []*vpDoc
	for d := 0; d < 3; d++ {
		doc := &vpDoc{}
		for f := 0; f < nf; f++ {
			if (f+d)%3 == 0 {
				continue // every field is missing from one of the three documents
			}
			name := "f" + vpItoa(1000+f)
			doc.fields = append(doc.fields, &vpField{name: name, length: 1 + d, terms: []*vpTerm{{term: []byte("t"), freq: 1 + d}}})
		}
		docs = append(docs, doc)
	}
	seg := vpBuild(docs, 1025)
	exp := vpBuildExpect(docs, nil)
	switch vpChoice("kind", 3) {
	case 0:
		vpStatsCheck("built (many fields)", seg, exp, false)
	case 1:
		vpStatsCheck("loaded (many fields)", vpLoad(vpPersist(seg)), exp, false)
	default:
		mb, _ := vpMergeBytes([]*Segment{seg}, []*roaring.Bitmap{nil}, 1025)
		vpStatsCheck("merged (many fields)", vpLoad(mb), exp, true)
	}
	vpReach("C16 manyfields end")
}

// C16 for merges in which field numbers shift: A has [_id body cats], B has
// [_id abstract] (and the other way round); symbolic frequencies; statistics of
// every field of the merged segment, with and without a deletion.
func vpH_C16_shift() {
	g := vpNewGen(0)
	g.perTermFreq = true
	mk := func(id string, names ...string) *vpDoc {
		d := &vpDoc{fields: []*vpField{{name: "_id", store: true, value: []byte(id), length: 1, terms: []*vpTerm{{term: []byte(id), freq: 1}}}}}
		for _, n := range names {
			d.fields = append(d.fields, &vpField{name: n, terms: []*vpTerm{g.term("t", 0, ""), g.term("u", 0, "")}})
		}
		return d
	}
	a := []*vpDoc{mk("a0", "body", "cats"), mk("a1", "body")}
	b := []*vpDoc{mk("b0", "abstract")}
	g.done()
	vpSetLengths(a)
	vpSetLengths(b)
	batches := [][]*vpDoc{a, b}
	if vpChoice("order", 2) == 1 {
		batches = [][]*vpDoc{b, a}
	}
	segs := []*Segment{vpBuild(batches[0], 1025), vpBuild(batches[1], 1025)}
	drops := make([]*roaring.Bitmap, 2)
	dropped := make([][]bool, 2)
	drops[0], dropped[0] = vpDrops("m", len(batches[0]))
	drops[1], dropped[1] = vpDrops("m", len(batches[1]))
	surv := vpSurvivors(batches, dropped)
	vpAssume(len(surv) > 0)
	mb, _ := vpMergeBytes(segs, drops, 1025)
	vpNote("feat:merged-stats")
	vpStatsCheck("merged (shifted field numbers)", vpLoad(mb), vpBuildExpect(surv, vpFieldNames(a, b)), true)
	vpReach("C16 shift end")
}

func vpH_C16_stats() {
	g := vpNewGen(0)
	var a, b []*vpDoc
	if vpChoice("independent-freqs", 2) == 1 {
		// every term has its own symbolic frequency: small shapes only
		g.perTermFreq = true
		a = g.batch("A", 1, 1, []int{3, 4, 5, 9, 10})
		b = g.batch("B", 0, 1, []int{5, 9, 10})
	} else {
		maxB := 1
		if vpThorough() {
			maxB = 2
		}
		tplA, tplB := []int{3, 4, 5, 10}, []int{5, 10}
		if vpThorough() {
			tplA, tplB = []int{2, 3, 4, 5, 6, 9, 10}, []int{2, 5, 9, 10}
		}
		a = g.batch("A", 1, 2, tplA)
		b = g.batch("B", 0, maxB, tplB)
	}
	g.done()
	vpSetLengths(a)
	vpSetLengths(b)
	sa := vpBuild(a, 1025)
	vpStatsCheck("built", sa, vpBuildExpect(a, nil), false)
	vpStatsCheck("loaded", vpLoad(vpPersist(sa)), vpBuildExpect(a, nil), false)
	sb := vpBuild(b, 2)
	drops := make([]*roaring.Bitmap, 2)
	dropped := make([][]bool, 2)
	drops[0], dropped[0] = vpDrops("m", len(a))
	drops[1], dropped[1] = vpDrops("m", len(b))
	surv := vpSurvivors([][]*vpDoc{a, b}, dropped)
	vpAssume(len(surv) > 0)
	mb, _ := vpMergeBytes([]*Segment{sa, sb}, drops, 1025)
	vpNote("feat:merged-stats")
	vpStatsCheck("merged", vpLoad(mb), vpBuildExpect(surv, vpFieldNames(a, b)), true)
	vpReach("C16 stats end")
}

// K11: CollectionStats.Merge adds component-wise (wrapping).
func vpH_K11_statsmerge() {
	x := &CollectionStats{totalDocCount: vpU64("a"), docCount: vpU64("b"), sumTotalTermFreq: vpU64("c")}
	y := &CollectionStats{totalDocCount: vpU64("d"), docCount: vpU64("e"), sumTotalTermFreq: vpU64("f")}
	t, d, s := x.totalDocCount, x.docCount, x.sumTotalTermFreq
	x.Merge(y)
	vpAssert(x.TotalDocumentCount() == t+y.totalDocCount, "TotalDocumentCount adds")
	vpAssert(x.DocumentCount() == d+y.docCount, "DocumentCount adds")
	vpAssert(x.SumTotalTermFrequency() == s+y.sumTotalTermFreq, "SumTotalTermFrequency adds")
	vpReach("K11 end")
}

func vpTranslate(drop []bool, dn []uint64, newCount int) *roaring.Bitmap {
	// deletions of old documents expressed in the new numbering
	bm := roaring.New()
	for i, d := range drop {
		if d {
			bm.Add(uint32(dn[i]))
		}
	}
	_ = newCount
	return bm
}

// C17: merge(a,b,c) == merge(merge(a,b),c) == merge(a,merge(b,c)); identity merge.
func vpH_C17_assoc() {
	g := vpNewGen(0)
	tpl := []int{2, 5, 7}
	if vpThorough() {
		tpl = []int{1, 2, 3, 5, 7, 9}
	}
	maxB := 1
	if vpThorough() {
		maxB = 2
	}
	a := g.batch("A", 1, 1, tpl)
	b := g.batch("B", 1, maxB, tpl)
	c := g.batch("C", 1, 1, tpl)
	g.done()
	vpSetLengths(a)
	vpSetLengths(b)
	vpSetLengths(c)
	sa, sb, sc := vpBuild(a, 1025), vpBuild(b, 2), vpBuild(c, 1)
	// deletions: only in b (translated through DocumentNumbers for the bracketings)
	dropB, droppedB := vpDrops("B", len(b))
	vpAssume(true)
	probeF, probeT := []string{"zz"}, []string{"q"}

	all, _ := vpMergeBytes([]*Segment{sa, sb, sc}, []*roaring.Bitmap{nil, dropB, nil}, 1025)
	obsAll := vpObserve(vpLoad(all), probeF, probeT)

	// (a b) c  -- deletions applied in the inner merge
	ab, _ := vpMergeBytes([]*Segment{sa, sb}, []*roaring.Bitmap{nil, dropB}, 1025)
	abc, _ := vpMergeBytes([]*Segment{vpLoad(ab), sc}, []*roaring.Bitmap{nil, nil}, 1025)
	vpSameObs("(ab)c vs abc", obsAll, vpObserve(vpLoad(abc), probeF, probeT))

	// a (b c)  -- inner merge without deletions, deletions translated through DocumentNumbers
	bc, dn := vpMergeBytes([]*Segment{sb, sc}, []*roaring.Bitmap{nil, nil}, 1025)
	var tr *roaring.Bitmap
	if dropB != nil {
		tr = vpTranslate(droppedB, dn[0], len(b)+len(c))
	}
	abc2, _ := vpMergeBytes([]*Segment{sa, vpLoad(bc)}, []*roaring.Bitmap{nil, tr}, 1025)
	vpSameObs("a(bc) vs abc", obsAll, vpObserve(vpLoad(abc2), probeF, probeT))

	// everything of a and b deleted: the inner merge (a b) leaves a zero-document
	// segment that still carries the fields of a and b
	allA, allB := roaring.New(), roaring.New()
	for i := range a {
		allA.Add(uint32(i))
	}
	for i := range b {
		allB.Add(uint32(i))
	}
	onlyC, _ := vpMergeBytes([]*Segment{sa, sb, sc}, []*roaring.Bitmap{allA, allB, nil}, 1025)
	obsOnlyC := vpObserve(vpLoad(onlyC), probeF, probeT)
	abZ, _ := vpMergeBytes([]*Segment{sa, sb}, []*roaring.Bitmap{allA, allB}, 1025)
	abZc, _ := vpMergeBytes([]*Segment{vpLoad(abZ), sc}, []*roaring.Bitmap{nil, nil}, 1025)
	vpSameObs("(ab: all deleted)c vs abc", obsOnlyC, vpObserve(vpLoad(abZc), probeF, probeT))
	cabZ, _ := vpMergeBytes([]*Segment{sc, vpLoad(abZ)}, []*roaring.Bitmap{nil, nil}, 1025)
	vpSameObs("c(ab: all deleted) vs abc", obsOnlyC, vpObserve(vpLoad(cabZ), probeF, probeT))

	// identity: merging the result alone changes nothing
	id, _ := vpMergeBytes([]*Segment{vpLoad(all)}, []*roaring.Bitmap{nil}, 1025)
	vpSameObs("identity merge", obsAll, vpObserve(vpLoad(id), probeF, probeT))
	vpReach("C17 assoc end")
}

// C18: DocsMatchingTerms == union of the listed terms' documents.
func vpH_C18_match() {
	g := vpNewGen(0)
	// (document 2 also carries a stored-only field "s": known to the segment, no term)
	docs := []*vpDoc{g.doc(2, 0), g.doc(9, 1), g.doc(5, 2)}
	docs[2].fields = append(docs[2].fields, &vpField{name: "s", store: true, value: g.bytes("val", 1)})
	seg := vpBuild(docs, 1025)
	held := docs
	switch vpChoice("kind", 4) {
	case 1:
		seg = vpLoad(vpPersist(seg))
	case 2:
		dr := roaring.New()
		dr.Add(1)
		mb, _ := vpMergeBytes([]*Segment{seg}, []*roaring.Bitmap{dr}, 1025)
		seg = vpLoad(mb)
		held = []*vpDoc{docs[0], docs[2]}
	case 3:
		// merged from two inputs that both hold every term (among them the empty term)
		mb, _ := vpMergeBytes([]*Segment{seg, seg}, []*roaring.Bitmap{nil, nil}, 1025)
		seg = vpLoad(mb)
		held = append(append([]*vpDoc(nil), docs...), docs...)
	}
	exp := vpBuildExpect(held, vpFieldNames(docs))
	fieldsTab := []string{"a", "b", "_id", "nofield", "", "s"}
	termsTab := []string{"x", "", "d0", "absent"}
	n := 1 + vpChoice("len", 3)
	if n == 3 && !vpThorough() {
		// quick tier: lists of three terms over reduced tables (known field,
		// unknown field, another known field; a general and a single-document term)
		fieldsTab = []string{"a", "nofield", "_id"}
		termsTab = []string{"x", "d0", "d1"}
	}
	var list []segment.Term
	want := map[uint64]bool{}
	for i := 0; i < n; i++ {
		f := fieldsTab[vpChoice("field", len(fieldsTab))]
		t := termsTab[vpChoice("term", len(termsTab))]
		if f == "nofield" || f == "" {
			vpNote("feat:unknown-field")
		}
		list = append(list, vpTermRef{f, t})
		if m := exp.post[f]; m != nil {
			for _, p := range m[t] {
				want[p.doc] = true
			}
		}
	}
	bm, err := seg.DocsMatchingTerms(list)
	vpMust(err, "DocsMatchingTerms")
	vpAssert(bm != nil, "DocsMatchingTerms returns a bitmap")
	if bm != nil {
		got := bm.ToArray()
		vpAssert(len(got) == len(want), "number of matching documents")
		for _, d := range got {
			vpAssert(want[uint64(d)], "only documents containing a listed term")
		}
	}
	vpReach("C18 match end")
}

// C17 with three inputs whose field lists share a prefix only ([_id a],
// [_id a bb], [_id a b], all stored; four input orders): all at once vs both bracketings.
func vpH_C17_prefix() {
	g := vpNewGen(0)
	// [_id a], [_id a bb] (bb stored), [_id a b] (b stored): bb's number shifts in the merge
	mid := g.doc(2, 0)
	mid.fields = append(mid.fields, &vpField{name: "bb", store: true, value: g.bytes("val", 2), length: 1, terms: []*vpTerm{{term: []byte("k"), freq: 1}}})
	batches := [][]*vpDoc{{g.doc(2, 0)}, {mid}, {g.doc(9, 0)}}
	g.done()
	perm := [][3]int{{0, 1, 2}, {0, 2, 1}, {1, 0, 2}, {2, 1, 0}}[vpChoice("order", 4)]
	var segs []*Segment
	for _, k := range perm {
		vpSetLengths(batches[k])
		segs = append(segs, vpBuild(batches[k], 1025))
	}
	probeF, probeT := []string{"zz"}, []string{"q"}
	all, _ := vpMergeBytes(segs, []*roaring.Bitmap{nil, nil, nil}, 1025)
	obsAll := vpObserve(vpLoad(all), probeF, probeT)
	ab, _ := vpMergeBytes(segs[:2], []*roaring.Bitmap{nil, nil}, 1025)
	abc, _ := vpMergeBytes([]*Segment{vpLoad(ab), segs[2]}, []*roaring.Bitmap{nil, nil}, 1025)
	vpSameObs("(ab)c vs abc", obsAll, vpObserve(vpLoad(abc), probeF, probeT))
	bc, _ := vpMergeBytes(segs[1:], []*roaring.Bitmap{nil, nil}, 1025)
	abc2, _ := vpMergeBytes([]*Segment{segs[0], vpLoad(bc)}, []*roaring.Bitmap{nil, nil}, 1025)
	vpSameObs("a(bc) vs abc", obsAll, vpObserve(vpLoad(abc2), probeF, probeT))
	// and against the model of the three documents
	var docs []*vpDoc
	for _, k := range perm {
		docs = append(docs, batches[k]...)
	}
	vpMatchesModel("abc", obsAll, vpBuildExpect(docs, vpFieldNames(docs)), vpMatchOpts{merged: true, skipStats: vpSkipMergedStats})
	vpReach("C17 prefix end")
}

func init() { vpRegister("vpH_C17_onehit", vpH_C17_onehit) }

// C17 identity on the 1-hit path with a WIDE symbolic frequency: a term without
// locations that survives in exactly one document (a merge may write it 1-hit only if
// its frequency is exactly 1 - for every 62-bit frequency, also those whose low 32 bits
// are 1); the single-segment merge, and the two-segment merge in which the second
// holder of the term is deleted, read back like the build of the survivors.
func vpH_C17_onehit() {
	fr := 1 + int(vpRange("freq.wide", 0, 1<<62-2))
	mk := func(term string, freq int) *vpDoc {
		return &vpDoc{fields: []*vpField{{name: "f", length: 3, terms: []*vpTerm{{term: []byte(term), freq: freq}, {term: []byte("k"), freq: 2}}}}}
	}
	a := []*vpDoc{mk("t", fr), mk("u", 1)}
	sa := vpBuild(a, 1025)
	var mb []byte
	surv := a
	if vpChoice("inputs", 2) == 0 {
		vpNote("op:Merge([a])")
		mb, _ = vpMergeBytes([]*Segment{sa}, []*roaring.Bitmap{nil}, 1025)
	} else {
		vpNote("op:Merge([a,b]) with b's holder of the term deleted")
		b := []*vpDoc{mk("t", 7), mk("w", 1)}
		dr := roaring.New()
		dr.Add(0)
		mb, _ = vpMergeBytes([]*Segment{sa, vpBuild(b, 1025)}, []*roaring.Bitmap{nil, dr}, 1025)
		surv = []*vpDoc{a[0], a[1], b[1]}
	}
	seg := vpLoad(mb)
	exp := vpBuildExpect(surv, []string{"f"})
	d, err := seg.Dictionary("f")
	vpMust(err, "Dictionary")
	for _, term := range []string{"t", "u", "k"} {
		pl, err := d.PostingsList([]byte(term), nil, nil)
		vpMust(err, "PostingsList")
		vpAssert(pl.Count() == uint64(len(exp.post["f"][term])), "identity merge: Count")
		vpPostingsMatch("identity merge, term "+term, vpReadPostings2(pl), exp.post["f"][term])
	}
	vpReach("C17 onehit end")
}
