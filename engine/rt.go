package main

// Run-time helpers that must match the gc runtime where ice's behaviour can
// depend on it (slice capacities after append), plus select / write-set hooks.

import (
	"fmt"
	"go/token"
	"go/types"

	"golang.org/x/tools/go/ssa"
)

var classToSize = []uintptr{0, 8, 16, 24, 32, 48, 64, 80, 96, 112, 128, 144, 160, 176, 192, 208, 224, 240, 256,
	288, 320, 352, 384, 416, 448, 480, 512, 576, 640, 704, 768, 896, 1024, 1152, 1280, 1408, 1536, 1792, 2048,
	2304, 2688, 3072, 3200, 3456, 4096, 4864, 5376, 6144, 6528, 6784, 6912, 8192, 9472, 9728, 10240, 10880,
	12288, 13568, 14336, 16384, 18432, 19072, 20480, 21760, 24576, 27264, 28672, 32768}

func sizeClass(n uintptr) uintptr {
	for _, c := range classToSize {
		if c >= n {
			return c
		}
	}
	return n
}

// roundupsize mirrors runtime.roundupsize of go1.22+ (malloc header aware).
func roundupsize(size uintptr, noscan bool) uintptr {
	const maxSmallSize, mallocHeaderSize, minSizeForMallocHeader, pageSize = 32768, 8, 512, 8192
	req := size
	if req <= maxSmallSize-mallocHeaderSize {
		if !noscan && req > minSizeForMallocHeader {
			req += mallocHeaderSize
		}
		return sizeClass(req) - (req - size)
	}
	req += pageSize - 1
	if req < size {
		return size
	}
	return req &^ (pageSize - 1)
}

func nextslicecap(newLen, oldCap int) int {
	newcap := oldCap
	doublecap := newcap + newcap
	if newLen > doublecap {
		return newLen
	}
	const threshold = 256
	if oldCap < threshold {
		return doublecap
	}
	for {
		newcap += (newcap + 3*threshold) >> 2
		if uint(newcap) >= uint(newLen) {
			break
		}
	}
	if newcap <= 0 {
		return newLen
	}
	return newcap
}

func hasPointers(t types.Type) bool {
	switch t := t.Underlying().(type) {
	case *types.Basic:
		return t.Kind() == types.String || t.Kind() == types.UnsafePointer
	case *types.Array:
		return t.Len() > 0 && hasPointers(t.Elem())
	case *types.Struct:
		for i := 0; i < t.NumFields(); i++ {
			if hasPointers(t.Field(i).Type()) {
				return true
			}
		}
		return false
	}
	return true
}

// growCap computes the capacity the gc runtime gives append().
func growCap(i *interpreter, tElt types.Type, newLen, oldCap int) int {
	es := uintptr(i.sizes.Sizeof(tElt))
	newcap := nextslicecap(newLen, oldCap)
	if es == 0 {
		return newcap
	}
	mem := roundupsize(uintptr(newcap)*es, !hasPointers(tElt))
	return int(mem / es)
}

func isAggregate(t types.Type) bool {
	switch t.Underlying().(type) {
	case *types.Struct, *types.Array:
		return true
	}
	return false
}

// goAppend implements append with gc-compatible capacity growth and value
// semantics for aggregate elements.
func goAppend(i *interpreter, tElt types.Type, dst, add []value) []value {
	agg := isAggregate(tElt)
	n := len(dst) + len(add)
	if n <= cap(dst) {
		out := dst[:n]
		for k, v := range add {
			if i.wsActive {
				i.noteStoreAt(nil, token.NoPos, &out[len(dst)+k])
			}
			if agg {
				v = load(tElt, &v)
			}
			out[len(dst)+k] = v
		}
		return out
	}
	nc := growCap(i, tElt, n, cap(dst))
	out := make([]value, n, nc)
	copy(out, dst)
	for k, v := range add {
		if agg {
			v = load(tElt, &v)
		}
		out[len(dst)+k] = v
	}
	full := out[:nc]
	for k := n; k < nc; k++ {
		full[k] = zero(tElt)
	}
	return out
}

func copyVals(tElt types.Type, dst, src []value) int {
	n := len(dst)
	if len(src) < n {
		n = len(src)
	}
	if !isAggregate(tElt) {
		return copy(dst, src)
	}
	// overlapping copies of aggregates: go through a temporary
	tmp := make([]value, n)
	for k := 0; k < n; k++ {
		tmp[k] = load(tElt, &src[k])
	}
	copy(dst, tmp)
	return n
}

// doSelect supports the only select ice uses: a non-blocking receive.
func (i *interpreter) doSelect(fr *frame, instr *ssa.Select) value {
	if instr.Blocking || len(instr.States) != 1 || instr.States[0].Dir != types.RecvOnly {
		panic(engineError{"unsupported select shape"})
	}
	st := instr.States[0]
	ch := fr.get(st.Chan).(chan value)
	elem := zero(st.Chan.Type().Underlying().(*types.Chan).Elem())
	closed := false
	if ch != nil {
		select {
		case _, ok := <-ch:
			if ok {
				panic(engineError{"select received a value (unsupported)"})
			}
			closed = true
		default:
		}
	}
	if i.cancelAt >= 0 && fr.fn.Name() == "isClosed" {
		if i.polls >= i.cancelAt {
			closed = true
		}
		i.polls++
	}
	if closed {
		return tuple{0, false, elem}
	}
	return tuple{-1, false, elem}
}

// ---- write-set tracking (frame conditions for C09 / C15) ----

func (i *interpreter) noteStore(fr *frame, instr *ssa.Store, addr *value) {
	if i.wsShared[addr] && i.wsLocks == 0 {
		pos := i.prog.Fset.Position(instr.Pos())
		key := fmt.Sprintf("%s:%d in %s", shortPath(pos.Filename), pos.Line, shortFn(fr.fn.String()))
		i.wsWrites[key]++
	}
}

func (i *interpreter) noteStoreAt(fr *frame, pos token.Pos, addr *value) {
	if i.wsShared[addr] && i.wsLocks == 0 {
		key := "builtin copy/append"
		if fr != nil {
			p := i.prog.Fset.Position(pos)
			key = fmt.Sprintf("%s:%d in %s (copy/append)", shortPath(p.Filename), p.Line, shortFn(fr.fn.String()))
		}
		i.wsWrites[key]++
	}
}

func shortPath(p string) string {
	for k := len(p) - 1; k >= 0; k-- {
		if p[k] == '/' {
			return p[k+1:]
		}
	}
	return p
}

// markShared records every memory cell reachable from v.
func (i *interpreter) markShared(v value, seen map[interface{}]bool) {
	switch x := v.(type) {
	case *value:
		if x == nil || i.wsShared[x] {
			return
		}
		i.wsShared[x] = true
		i.markShared(*x, seen)
	case structure:
		for k := range x {
			i.wsShared[&x[k]] = true
			i.markShared(x[k], seen)
		}
	case array:
		for k := range x {
			i.wsShared[&x[k]] = true
			i.markShared(x[k], seen)
		}
	case []value:
		full := x[:cap(x)]
		if len(full) > 0 {
			if seen[&full[0]] {
				return
			}
			seen[&full[0]] = true
		}
		for k := range full {
			i.wsShared[&full[k]] = true
			i.markShared(full[k], seen)
		}
	case iface:
		i.markShared(x.v, seen)
	case *omap:
		if x == nil || seen[x] {
			return
		}
		seen[x] = true
		for k := range x.vals {
			if x.live[k] {
				i.markShared(x.vals[k], seen)
			}
		}
	case *closure:
		if x == nil || seen[x] {
			return
		}
		seen[x] = true
		for _, e := range x.Env {
			i.markShared(e, seen)
		}
	case tuple:
		for _, e := range x {
			i.markShared(e, seen)
		}
	}
}
