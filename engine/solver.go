package main

// One live SMT solver process per worker, driven over pipes with SMT-LIB2.

import (
	"bufio"
	"fmt"
	"io"
	"os"
	"os/exec"
	"strconv"
	"strings"
	"time"
)

type SolverStats struct {
	Sat, Unsat, Unknown int
	Seconds             float64
	Errors              int
}

type Solver struct {
	name    string
	cmd     *exec.Cmd
	in      io.WriteCloser
	out     *bufio.Reader
	emitted map[int]bool // term IDs defined in the current session
	declUF  map[string]bool
	Stats   SolverStats
	timeout time.Duration
	log     io.Writer
	dead    bool
}

func solverArgs(name string, timeoutMs int) (string, []string) {
	switch name {
	case "z3":
		return "z3", []string{"-in", fmt.Sprintf("-t:%d", timeoutMs)}
	case "z3-new":
		return "z3-new", []string{"-in", fmt.Sprintf("-t:%d", timeoutMs)}
	case "cvc5":
		return "cvc5", []string{"--incremental", "--produce-models", "--lang=smt2", fmt.Sprintf("--tlimit-per=%d", timeoutMs)}
	case "cvc5-int":
		return "cvc5", []string{"--incremental", "--produce-models", "--lang=smt2", "--solve-bv-as-int=sum", fmt.Sprintf("--tlimit-per=%d", timeoutMs)}
	}
	panic("unknown solver " + name)
}

func NewSolver(name string, timeoutMs int) (*Solver, error) {
	bin, args := solverArgs(name, timeoutMs)
	cmd := exec.Command(bin, args...)
	in, err := cmd.StdinPipe()
	if err != nil {
		return nil, err
	}
	outp, err := cmd.StdoutPipe()
	if err != nil {
		return nil, err
	}
	cmd.Stderr = cmd.Stdout
	if err := cmd.Start(); err != nil {
		return nil, err
	}
	s := &Solver{name: name, cmd: cmd, in: in, out: bufio.NewReaderSize(outp, 1<<16),
		timeout: time.Duration(timeoutMs) * time.Millisecond}
	if p := os.Getenv("VP_SMTLOG"); p != "" {
		if f, err := os.OpenFile(fmt.Sprintf("%s.%d", p, cmd.Process.Pid), os.O_CREATE|os.O_WRONLY|os.O_TRUNC, 0o644); err == nil {
			s.log = f
		}
	}
	s.Reset()
	return s, nil
}

func (s *Solver) Close() {
	if s == nil || s.dead {
		return
	}
	s.dead = true
	s.in.Close()
	s.cmd.Process.Kill()
	s.cmd.Wait()
}

func (s *Solver) send(line string) {
	if s.log != nil {
		fmt.Fprintln(s.log, line)
	}
	io.WriteString(s.in, line)
	io.WriteString(s.in, "\n")
}

// Reset starts a fresh session (new path).
func (s *Solver) Reset() {
	s.send("(reset)")
	if strings.HasPrefix(s.name, "cvc5") {
		s.send("(set-logic ALL)")
	}
	s.send("(set-option :produce-models true)")
	s.emitted = map[int]bool{}
	s.declUF = map[string]bool{}
}

// define emits declarations/definitions for t and its sub-terms (post-order).
func (s *Solver) define(tb *TermBank, t *Term) {
	if s.emitted[t.ID] {
		return
	}
	// iterative post-order to avoid deep recursion on long chains
	type fr struct {
		t *Term
		i int
	}
	st := []fr{{t, 0}}
	for len(st) > 0 {
		top := &st[len(st)-1]
		if s.emitted[top.t.ID] {
			st = st[:len(st)-1]
			continue
		}
		if top.i < len(top.t.Args) {
			a := top.t.Args[top.i]
			top.i++
			if !s.emitted[a.ID] {
				st = append(st, fr{a, 0})
			}
			continue
		}
		x := top.t
		st = st[:len(st)-1]
		s.emitted[x.ID] = true
		switch x.Op {
		case OpConst, OpBConst:
		case OpVar, OpBVar:
			s.send(fmt.Sprintf("(declare-const |%s| %s)", x.Name, sortOf(x.W)))
		default:
			if x.Op == OpUF && !s.declUF[x.Name] {
				s.declUF[x.Name] = true
				s.send(tb.ufs[x.Name])
			}
			s.send(fmt.Sprintf("(define-fun t%d () %s %s)", x.ID, sortOf(x.W), x.body()))
		}
	}
}

// Assert adds a permanent constraint (for the rest of the path).
func (s *Solver) Assert(tb *TermBank, t *Term) {
	s.define(tb, t)
	s.send("(assert " + t.ref() + ")")
}

type Result int

const (
	Unsat Result = iota
	Sat
	Unknown
)

func (r Result) String() string { return [...]string{"unsat", "sat", "unknown"}[r] }

func (s *Solver) readLine() (string, error) {
	line, err := s.out.ReadString('\n')
	return strings.TrimSpace(line), err
}

// Check decides sat(PC ∧ extra...) without changing the permanent assertions.
// If vars is non-nil and the answer is sat, values of vars are returned.
func (s *Solver) Check(tb *TermBank, extra []*Term, vars []*Term) (Result, map[string]uint64) {
	for _, e := range extra {
		s.define(tb, e)
	}
	for _, v := range vars {
		s.define(tb, v)
	}
	t0 := time.Now()
	if len(extra) > 0 {
		s.send("(push 1)")
		for _, e := range extra {
			s.send("(assert " + e.ref() + ")")
		}
	}
	s.send("(check-sat)")
	s.send("(echo \"vpdone\")")
	res := Unknown
	sawErr := false
	for {
		line, err := s.readLine()
		if err != nil {
			s.Stats.Errors++
			s.dead = true
			break
		}
		line = strings.Trim(line, "\"")
		if line == "vpdone" {
			break
		}
		switch {
		case line == "sat":
			res = Sat
		case line == "unsat":
			res = Unsat
		case line == "unknown" || strings.HasPrefix(line, "timeout"):
			res = Unknown
		case strings.HasPrefix(line, "(error"):
			s.Stats.Errors++
			sawErr = true
			fmt.Printf("SOLVER-ERROR %s: %s\n", s.name, line)
		}
	}
	if sawErr {
		res = Unknown
	}
	var model map[string]uint64
	if res == Sat && len(vars) > 0 {
		model = s.getValues(vars)
	}
	if len(extra) > 0 {
		s.send("(pop 1)")
	}
	s.Stats.Seconds += time.Since(t0).Seconds()
	switch res {
	case Sat:
		s.Stats.Sat++
	case Unsat:
		s.Stats.Unsat++
	default:
		s.Stats.Unknown++
	}
	return res, model
}

func (s *Solver) getValues(vars []*Term) map[string]uint64 {
	model := map[string]uint64{}
	for _, v := range vars {
		s.send("(get-value (" + v.ref() + "))")
		s.send("(echo \"vpdone\")")
		var acc strings.Builder
		for {
			line, err := s.readLine()
			if err != nil {
				s.dead = true
				return model
			}
			if strings.Trim(line, "\"") == "vpdone" {
				break
			}
			acc.WriteString(line)
			acc.WriteString(" ")
		}
		txt := acc.String()
		if strings.Contains(txt, "(error") {
			s.Stats.Errors++
			continue
		}
		val, ok := parseValue(txt)
		if ok {
			model[v.Name] = val
		}
	}
	return model
}

func parseValue(txt string) (uint64, bool) {
	if i := strings.LastIndex(txt, "#x"); i >= 0 {
		j := i + 2
		for j < len(txt) && strings.ContainsRune("0123456789abcdefABCDEF", rune(txt[j])) {
			j++
		}
		h := txt[i+2 : j]
		if len(h) > 16 {
			h = h[len(h)-16:]
		}
		v, err := strconv.ParseUint(h, 16, 64)
		return v, err == nil
	}
	if i := strings.LastIndex(txt, "#b"); i >= 0 {
		j := i + 2
		for j < len(txt) && (txt[j] == '0' || txt[j] == '1') {
			j++
		}
		b := txt[i+2 : j]
		if len(b) > 64 {
			b = b[len(b)-64:]
		}
		v, err := strconv.ParseUint(b, 2, 64)
		return v, err == nil
	}
	if strings.Contains(txt, " true") {
		return 1, true
	}
	if strings.Contains(txt, " false") {
		return 0, true
	}
	// (_ bv123 32)
	if i := strings.Index(txt, "(_ bv"); i >= 0 {
		j := i + 5
		k := j
		for k < len(txt) && txt[k] >= '0' && txt[k] <= '9' {
			k++
		}
		v, err := strconv.ParseUint(txt[j:k], 10, 64)
		return v, err == nil
	}
	return 0, false
}
