package main

// Path exploration by re-execution with a decision prefix.

import (
	"fmt"
	"math/bits"
	"os"
	"sort"
	"strings"
	"sync"
	"time"
)

type Decision struct {
	Kind   string   `json:"k"` // "br", "split", "choice"
	B      bool     `json:"b,omitempty"`
	V      uint64   `json:"v,omitempty"`
	Excl   []uint64 `json:"x,omitempty"`
	Open   bool     `json:"o,omitempty"`
	Forced bool     `json:"f,omitempty"`
	Label  string   `json:"l,omitempty"`
}

// Outcome of one path.
type Outcome int

const (
	OutOK Outcome = iota
	OutInfeasible
	OutPanic      // uncaught target panic
	OutDeadlock   // self-deadlock on a mutex
	OutBudget     // step budget exceeded (unwinding assertion)
	OutSplitBound // too many values at a split point
	OutEngine     // engine error
	OutAborted    // harness called vpAbort / assertion concretely failed and stop requested
)

func (o Outcome) String() string {
	return [...]string{"ok", "infeasible", "panic", "deadlock", "budget", "split-bound", "engine-error", "aborted"}[o]
}

// Candidate counterexample (to be confirmed by native replay).
type Candidate struct {
	Harness string            `json:"harness"`
	Kind    string            `json:"kind"` // assert | panic | deadlock
	Label   string            `json:"label"`
	Msg     string            `json:"msg,omitempty"`
	Values  map[string]uint64 `json:"values"`
	Choices []uint64          `json:"choices"`
	Trace   []Decision        `json:"-"`
	Notes   []string          `json:"notes,omitempty"`
}

type pathInfeasible struct{}
type pathAbort struct {
	out Outcome
	msg string
}

// pathState is the per-path dynamic state.
type pathState struct {
	ex      *Explorer
	prefix  []Decision
	pos     int
	trace   []Decision
	solver  *Solver
	varCnt  map[string]int
	inputs  []*Term // input variables in creation order
	ranges  []*Term // range constraints already asserted
	steps   int64
	alts    [][]Decision
	cands   []Candidate
	reached map[string]bool
	notes   []string
	choices []uint64
	queries int
	incon   int // inconclusive final queries
	inconNotes []string
	pcSize  int
	sample  map[string]interface{}
	sampleCand *Candidate
	conc    map[int]uint64 // term ID -> value fixed by an earlier split on this path
	condVal map[int]bool   // Bool term ID -> outcome decided earlier on this path
	asserted []*Term       // permanent constraints of this path (for the fallback solver)
	fallback **Solver      // the worker's lazily started second solver
}

type HarnessStats struct {
	Paths        int
	Outcomes     map[string]int
	Decisions    int64
	Steps        int64
	Queries      SolverStats
	Inconclusive int
	Reached      map[string]int
	Funcs        map[string]int
	Samples      []map[string]interface{}
	Candidates   []Candidate
	SampleCands  []Candidate
	EngineErrors []string
	BoundNotes   []string
	InconNotes   []string
	FallbackQueries int
	FallbackDecided int
	WallS        float64
	Inputs       map[string]int // symbolic input names -> width
}

type Explorer struct {
	prog       *Program
	harness    string
	workers    int
	solverName string
	timeoutMs  int
	stepBudget int64
	maxSplit   int
	maxPaths   int
	maxSamples int
	maxCands   int
	verbose    bool
	trace      bool
	profile    bool
	dump       bool
	sites      map[string]int
	tier       int
	maxWall    time.Duration
	started    time.Time
	sampleSeed int64
	rng        uint64
	pathSeq    int64

	mu      sync.Mutex
	cond    *sync.Cond
	stack   [][]Decision
	active  int
	stats   HarnessStats
	stopped bool
	candKey map[string]int
}

func NewExplorer(p *Program, harness string) *Explorer {
	ex := &Explorer{prog: p, harness: harness, workers: 16, solverName: "z3", timeoutMs: 10000,
		stepBudget: 20_000_000, maxSplit: 64, maxPaths: 2_000_000, maxSamples: 4, maxCands: 3}
	ex.cond = sync.NewCond(&ex.mu)
	ex.stats.Outcomes = map[string]int{}
	ex.stats.Reached = map[string]int{}
	ex.stats.Funcs = map[string]int{}
	ex.stats.Inputs = map[string]int{}
	ex.candKey = map[string]int{}
	return ex
}

func (ex *Explorer) Run() *HarnessStats {
	t0 := time.Now()
	ex.started = t0
	ex.stack = [][]Decision{nil}
	var wg sync.WaitGroup
	for w := 0; w < ex.workers; w++ {
		wg.Add(1)
		go func(id int) {
			defer wg.Done()
			ex.worker(id)
		}(w)
	}
	wg.Wait()
	ex.stats.WallS = time.Since(t0).Seconds()
	return &ex.stats
}

func (ex *Explorer) worker(id int) {
	solver, err := NewSolver(ex.solverName, ex.timeoutMs)
	if err != nil {
		ex.mu.Lock()
		ex.stats.EngineErrors = append(ex.stats.EngineErrors, "cannot start solver: "+err.Error())
		ex.stopped = true
		ex.cond.Broadcast()
		ex.mu.Unlock()
		return
	}
	defer solver.Close()
	var fallback *Solver
	defer func() {
		if fallback != nil {
			fallback.Close()
		}
	}()
	for {
		ex.mu.Lock()
		for len(ex.stack) == 0 && ex.active > 0 && !ex.stopped {
			ex.cond.Wait()
		}
		if ex.stopped || (len(ex.stack) == 0 && ex.active == 0) {
			ex.cond.Broadcast()
			ex.mu.Unlock()
			break
		}
		// depth first, but every 16th pop takes a random pending prefix: when a
		// harness cannot be finished inside its wall limit the explored part is
		// then spread over the whole choice space instead of one corner of it
		ex.rng = ex.rng*6364136223846793005 + 1442695040888963407
		if n := len(ex.stack); n > 1 && (ex.rng>>33)%16 == 0 {
			k := int((ex.rng >> 37) % uint64(n))
			ex.stack[k], ex.stack[n-1] = ex.stack[n-1], ex.stack[k]
		}
		prefix := ex.stack[len(ex.stack)-1]
		ex.stack = ex.stack[:len(ex.stack)-1]
		ex.active++
		ex.mu.Unlock()

		if solver.dead {
			solver.Close()
			solver, err = NewSolver(ex.solverName, ex.timeoutMs)
			if err != nil {
				ex.mu.Lock()
				ex.stats.EngineErrors = append(ex.stats.EngineErrors, "cannot restart solver: "+err.Error())
				ex.stopped = true
				ex.active--
				ex.cond.Broadcast()
				ex.mu.Unlock()
				return
			}
		}
		ps, out, msg, funcs := ex.runPath(prefix, solver, &fallback)

		ex.mu.Lock()
		ex.active--
		if ex.dump {
			var sb strings.Builder
			for _, d := range ps.trace {
				switch d.Kind {
				case "br":
					f := ""
					if d.Forced {
						f = "!"
					}
					if d.B {
						sb.WriteString("T" + f + " ")
					} else {
						sb.WriteString("F" + f + " ")
					}
				case "split":
					fmt.Fprintf(&sb, "S%d%v ", d.V, d.Excl)
				case "choice":
					fmt.Fprintf(&sb, "[%s=%d] ", d.Label, d.V)
				}
			}
			fmt.Fprintf(os.Stderr, "PATH %s: %s\n", out, sb.String())
		}
		st := &ex.stats
		st.Paths++
		st.Outcomes[out.String()]++
		st.Decisions += int64(len(ps.trace))
		st.Steps += ps.steps
		st.Inconclusive += ps.incon
		for _, n := range ps.inconNotes {
			if len(st.InconNotes) < 10 {
				st.InconNotes = append(st.InconNotes, n)
			}
		}
		for l := range ps.reached {
			st.Reached[l]++
		}
		for f, n := range funcs {
			st.Funcs[f] += n
		}
		for _, v := range ps.inputs {
			st.Inputs[v.Name] = v.W
		}
		switch out {
		case OutEngine:
			if len(st.EngineErrors) < 20 {
				st.EngineErrors = append(st.EngineErrors, msg)
			}
		case OutBudget, OutSplitBound:
			if len(st.BoundNotes) < 20 {
				st.BoundNotes = append(st.BoundNotes, out.String()+": "+msg)
			}
		}
		for _, c := range ps.cands {
			k := c.Kind + "|" + c.Label
			if ex.candKey[k] < ex.maxCands {
				ex.candKey[k]++
				st.Candidates = append(st.Candidates, c)
			}
		}
		if out == OutOK && len(st.Samples) < ex.maxSamples && ps.sample != nil {
			st.Samples = append(st.Samples, ps.sample)
			if ps.sampleCand != nil {
				st.SampleCands = append(st.SampleCands, *ps.sampleCand)
			}
		}
		for _, a := range ps.alts {
			ex.stack = append(ex.stack, a)
		}
		if ex.maxWall > 0 && time.Since(ex.started) > ex.maxWall && !ex.stopped {
			ex.stopped = true
			st.BoundNotes = append(st.BoundNotes, fmt.Sprintf("wall-clock limit %s reached after %d paths; %d prefixes unexplored", ex.maxWall, st.Paths, len(ex.stack)))
		}
		if st.Paths >= ex.maxPaths && !ex.stopped {
			ex.stopped = true
			st.BoundNotes = append(st.BoundNotes, fmt.Sprintf("path limit %d reached; %d prefixes unexplored", ex.maxPaths, len(ex.stack)))
		}
		if ex.verbose && st.Paths%200 == 0 {
			fmt.Printf("  [%s] paths=%d stack=%d\n", ex.harness, st.Paths, len(ex.stack))
		}
		ex.cond.Broadcast()
		ex.mu.Unlock()
	}
	ex.mu.Lock()
	s := solver.Stats
	ex.stats.Queries.Sat += s.Sat
	ex.stats.Queries.Unsat += s.Unsat
	ex.stats.Queries.Unknown += s.Unknown
	ex.stats.Queries.Seconds += s.Seconds
	ex.stats.Queries.Errors += s.Errors
	ex.mu.Unlock()
}

// ---- decision primitives (called from the interpreter) ----

func (ps *pathState) record(d Decision) {
	ps.trace = append(ps.trace, d)
}

func (ps *pathState) fork(alt Decision) {
	p := make([]Decision, len(ps.trace), len(ps.trace)+1)
	copy(p, ps.trace)
	p = append(p, alt)
	ps.alts = append(ps.alts, p)
}

func (i *interpreter) assertPC(t *Term) {
	if t.Op == OpBConst {
		if t.A == 0 {
			panic(pathInfeasible{})
		}
		return
	}
	i.ps.solver.Assert(i.tb, t)
	i.ps.pcSize++
	i.ps.asserted = append(i.ps.asserted, t)
	refine(t, true)
}

// refine narrows the static interval of terms that the (now permanent) path
// constraint c == val bounds, and pushes the bound down to the terms it was
// built from.  Sound because the path condition only ever grows along a path
// and the term bank lives for one path; terms built later see the narrower
// ranges, which lets comparisons fold without a query.
func refine(c *Term, val bool) {
	switch c.Op {
	case OpBNot:
		refine(c.Args[0], !val)
	case OpBAnd:
		if val {
			refine(c.Args[0], true)
			refine(c.Args[1], true)
		}
	case OpBOr:
		if !val {
			refine(c.Args[0], false)
			refine(c.Args[1], false)
		}
	case OpEq:
		a, b := c.Args[0], c.Args[1]
		if val && a.W > 0 && a.W <= 64 {
			if b.Op == OpConst {
				narrow(a, b.A, b.A)
			} else if a.Op == OpConst {
				narrow(b, a.A, a.A)
			}
		}
	case OpUlt, OpUle:
		a, b := c.Args[0], c.Args[1]
		if a.W == 0 || a.W > 64 {
			return
		}
		m := mask(a.W)
		strict := c.Op == OpUlt
		switch {
		case b.Op == OpConst && a.Op != OpConst:
			// a < k / a <= k
			k := b.A
			if val {
				if strict {
					if k == 0 {
						return
					}
					k--
				}
				narrow(a, 0, k)
			} else {
				// a >= k / a > k
				if !strict {
					if k == m {
						return
					}
					k++
				}
				narrow(a, k, m)
			}
		case a.Op == OpConst && b.Op != OpConst:
			// k < b / k <= b
			k := a.A
			if val {
				if strict {
					if k == m {
						return
					}
					k++
				}
				narrow(b, k, m)
			} else {
				// b <= k / b < k
				if !strict {
					if k == 0 {
						return
					}
					k--
				}
				narrow(b, 0, k)
			}
		}
	}
}

// narrow intersects t's interval with [lo,hi] and propagates the upper bound
// through operations whose operands cannot exceed the result.
func narrow(t *Term, lo, hi uint64) {
	for depth := 0; depth < 24; depth++ {
		if t.Op == OpConst || t.W == 0 || t.W > 64 {
			return
		}
		changed := false
		if lo > t.Lo && lo <= t.Hi {
			t.Lo = lo
			changed = true
		}
		if hi < t.Hi && hi >= t.Lo {
			t.Hi = hi
			changed = true
		}
		if !changed {
			return
		}
		m := mask(t.W)
		if t.Hi < m {
			if lz := bits.LeadingZeros64(t.Hi); lz > 0 {
				t.K0 |= ^(^uint64(0) >> uint(lz))
			}
		}
		// only the upper bound is pushed further down
		lo = 0
		switch t.Op {
		case OpSlice:
			base := t.Args[0]
			sl, n, sh := uint(t.A), int(t.B), uint(t.C)
			if int(sl)+n < effWidth(base) {
				return // the slice hides upper bits of the base
			}
			// value = (base >> sl) << sh, so base>>sl <= Hi>>sh
			top := t.Hi >> sh
			if top >= mask(64-int(sl)) {
				return
			}
			hi = ((top + 1) << sl) - 1
			t = base
		case OpOr:
			// both operands are <= the result
			narrow(t.Args[1], 0, t.Hi)
			hi = t.Hi
			t = t.Args[0]
		case OpAdd:
			// x + c without wrap-around: x <= Hi - c
			a, b := t.Args[0], t.Args[1]
			if b.Op == OpConst && a.Hi <= m-b.A && t.Hi >= b.A {
				hi = t.Hi - b.A
				t = a
			} else {
				return
			}
		default:
			return
		}
	}
}

// decide resolves a symbolic condition to a concrete branch direction.
func (i *interpreter) decide(cond *Term, label string) bool {
	if cond.Op == OpBConst {
		return cond.A != 0
	}
	ps := i.ps
	// a condition already decided on this path (or computable from learnt facts)
	// needs neither a query nor a decision record; this is deterministic, so
	// re-executions stay aligned
	if v, ok := ps.knownCond(cond); ok {
		return v
	}
	res := i.decideSlow(cond, label)
	ps.condVal[cond.ID] = res
	return res
}

func (i *interpreter) decideSlow(cond *Term, label string) bool {
	ps := i.ps
	tb := i.tb
	if ps.pos < len(ps.prefix) {
		d := ps.prefix[ps.pos]
		ps.pos++
		if d.Kind != "br" {
			panic(engineError{fmt.Sprintf("replay divergence: expected %s got br (%s) at %d", d.Kind, label, ps.pos-1)})
		}
		ps.record(d)
		if !d.Forced {
			if d.B {
				i.assertPC(cond)
			} else {
				i.assertPC(tb.BNot(cond))
			}
		}
		return d.B
	}
	ps.pos++
	if ps.ex.profile {
		ps.ex.noteSite(i, "br")
	}
	rT, _ := ps.check(tb, []*Term{cond}, nil)
	ps.queries++
	if rT == Unsat {
		ps.record(Decision{Kind: "br", B: false, Forced: true})
		return false
	}
	rF, _ := ps.check(tb, []*Term{tb.BNot(cond)}, nil)
	ps.queries++
	if rF == Unsat {
		if rT == Unknown {
			// cannot certify the true side either: keep it, but note it
			ps.incon++
		}
		ps.record(Decision{Kind: "br", B: true, Forced: rT == Sat})
		if rT != Sat {
			i.assertPC(cond)
		}
		return true
	}
	if rT == Unknown || rF == Unknown {
		ps.incon++
		site := "?"
		if fr := i.top; fr != nil {
			site = shortFn(fr.fn.String())
		}
		ps.inconNotes = append(ps.inconNotes, "branch kept both ways in "+site)
	}
	// both sides (possibly) feasible: take true now, schedule false
	if ps.ex.profile {
		ps.ex.noteSite(i, "FORK")
	}
	ps.fork(Decision{Kind: "br", B: false})
	ps.record(Decision{Kind: "br", B: true})
	i.assertPC(cond)
	return true
}

// concretize turns a symbolic integer into a concrete one by an exhaustive,
// solver-certified case split (one path per feasible value).
func (i *interpreter) concretize(v symInt, label string) value {
	ps := i.ps
	tb := i.tb
	w, _ := kindWidth(v.Kind)
	take := func(d Decision) value {
		for _, e := range d.Excl {
			i.assertPC(tb.BNot(tb.Cmp(OpEq, v.T, tb.Const(w, e))))
		}
		i.assertPC(tb.Cmp(OpEq, v.T, tb.Const(w, d.V)))
		return mkConcInt(v.Kind, d.V)
	}
	if cv, ok := ps.eval(v.T, 0); ok {
		return mkConcInt(v.Kind, cv)
	}
	takeInner := take
	take = func(d Decision) value {
		ps.learn(v.T, d.V)
		return takeInner(d)
	}
	var excl []uint64
	if ps.pos < len(ps.prefix) {
		d := ps.prefix[ps.pos]
		ps.pos++
		if d.Kind != "split" {
			panic(engineError{fmt.Sprintf("replay divergence: expected %s got split (%s)", d.Kind, label)})
		}
		if !d.Open {
			ps.record(d)
			return take(d)
		}
		excl = d.Excl
	} else {
		ps.pos++
	}
	if len(excl) >= ps.ex.maxSplit {
		panic(pathAbort{OutSplitBound, fmt.Sprintf("more than %d values at split %q (%s)", ps.ex.maxSplit, label, v.T)})
	}
	var extra []*Term
	for _, e := range excl {
		extra = append(extra, tb.BNot(tb.Cmp(OpEq, v.T, tb.Const(w, e))))
	}
	if ps.ex.profile {
		ps.ex.noteSite(i, "split")
	}
	// need a model value for v.T: bind it to a fresh variable
	probe := tb.Var(fmt.Sprintf("vp!probe%d", len(tb.terms)), w)
	extra = append(extra, tb.Cmp(OpEq, probe, v.T))
	res, model := ps.check(tb, extra, []*Term{probe})
	ps.queries++
	if res == Unsat {
		panic(pathInfeasible{})
	}
	if res == Unknown {
		ps.incon++
		panic(pathAbort{OutSplitBound, fmt.Sprintf("solver unknown at split %q", label)})
	}
	val := model[probe.Name]
	d := Decision{Kind: "split", V: val, Excl: excl, Label: label}
	nx := append(append([]uint64(nil), excl...), val)
	// is there any further value?  (one query now saves a whole re-execution)
	more := append(append([]*Term(nil), extra[:len(extra)-1]...), tb.BNot(tb.Cmp(OpEq, v.T, tb.Const(w, val))))
	r2, _ := ps.check(tb, more, nil)
	ps.queries++
	if r2 != Unsat {
		if ps.ex.profile {
			ps.ex.noteSite(i, "FORKSPLIT "+label)
		}
		ps.fork(Decision{Kind: "split", Excl: nx, Open: true, Label: label})
	}
	ps.record(d)
	return take(d)
}

// choice enumerates 0..n-1 without the solver.
func (i *interpreter) choice(n int, label string) int {
	ps := i.ps
	if n <= 0 {
		panic(pathInfeasible{})
	}
	if ps.pos < len(ps.prefix) {
		d := ps.prefix[ps.pos]
		ps.pos++
		if d.Kind != "choice" {
			panic(engineError{fmt.Sprintf("replay divergence: expected %s got choice (%s)", d.Kind, label)})
		}
		ps.record(d)
		ps.choices = append(ps.choices, d.V)
		return int(d.V)
	}
	ps.pos++
	for k := n - 1; k >= 1; k-- {
		ps.fork(Decision{Kind: "choice", V: uint64(k), Label: label})
	}
	ps.record(Decision{Kind: "choice", V: 0, Label: label})
	ps.choices = append(ps.choices, 0)
	return 0
}

// freshVar creates a named symbolic input.
func (i *interpreter) freshVar(name string, w int) *Term {
	ps := i.ps
	k := ps.varCnt[name]
	ps.varCnt[name] = k + 1
	t := i.tb.Var(fmt.Sprintf("%s@%d", name, k), w)
	ps.inputs = append(ps.inputs, t)
	return t
}

// model returns values of all inputs under PC ∧ extra (nil if not sat).
func (i *interpreter) model(extra []*Term) (Result, map[string]uint64) {
	ps := i.ps
	vars := ps.inputs
	if len(vars) == 0 {
		r, _ := ps.check(i.tb, extra, nil)
		ps.queries++
		return r, map[string]uint64{}
	}
	r, m := ps.check(i.tb, extra, vars)
	ps.queries++
	return r, m
}

func (i *interpreter) addCandidate(kind, label, msg string, extra []*Term) {
	ps := i.ps
	r, m := i.model(extra)
	if r == Unsat {
		return
	}
	if r == Unknown {
		ps.incon++
		return
	}
	c := Candidate{Harness: ps.ex.harness, Kind: kind, Label: label, Msg: msg, Values: m,
		Choices: append([]uint64(nil), ps.choices...), Notes: append([]string(nil), ps.notes...)}
	ps.cands = append(ps.cands, c)
}

// vpAssert semantic.
func (i *interpreter) checkAssert(c value, label string) {
	ps := i.ps
	switch x := c.(type) {
	case bool:
		if !x {
			i.addCandidate("assert", label, "", nil)
		}
	case symBool:
		if ps.ex.profile {
			ps.ex.noteSite(i, "assert "+label)
		}
		neg := i.tb.BNot(x.T)
		r, m := i.model([]*Term{neg})
		switch r {
		case Sat:
			ps.cands = append(ps.cands, Candidate{Harness: ps.ex.harness, Kind: "assert", Label: label, Values: m,
				Choices: append([]uint64(nil), ps.choices...), Notes: append([]string(nil), ps.notes...)})
			// continue under the assumption that the assertion held
			rr, _ := ps.check(i.tb, []*Term{x.T}, nil)
			ps.queries++
			if rr == Unsat {
				panic(pathAbort{OutAborted, "assertion fails on every input of this path: " + label})
			}
			i.assertPC(x.T)
		case Unknown:
			ps.incon++
			ps.inconNotes = append(ps.inconNotes, "assertion undecided: "+label)
			i.assertPC(x.T)
		}
	default:
		panic(engineError{fmt.Sprintf("vpAssert: %T", c)})
	}
}

func (i *interpreter) checkAssume(c value) {
	switch x := c.(type) {
	case bool:
		if !x {
			panic(pathInfeasible{})
		}
	case symBool:
		r, _ := i.ps.check(i.tb, []*Term{x.T}, nil)
		i.ps.queries++
		if r == Unsat {
			panic(pathInfeasible{})
		}
		i.assertPC(x.T)
	default:
		panic(engineError{fmt.Sprintf("vpAssume: %T", c)})
	}
}

func sortedKeys(m map[string]int) []string {
	var ks []string
	for k := range m {
		ks = append(ks, k)
	}
	sort.Strings(ks)
	return ks
}

func shortFn(s string) string {
	s = strings.TrimPrefix(s, "github.com/blugelabs/ice/v2.")
	s = strings.Replace(s, "github.com/blugelabs/ice/v2.", "", -1)
	return s
}

func (ex *Explorer) noteSite(i *interpreter, kind string) {
	site := kind + " <none>"
	if fr := i.top; fr != nil {
		line := 0
		if fr.cur != nil {
			line = i.prog.Fset.Position(fr.cur.Pos()).Line
		}
		site = fmt.Sprintf("%s %s:%d", kind, shortFn(fr.fn.String()), line)
	}
	ex.mu.Lock()
	if ex.sites == nil {
		ex.sites = map[string]int{}
	}
	ex.sites[site]++
	ex.mu.Unlock()
}

// learn records that term t has value v on this path and propagates the fact
// down through invertible operations to the variables.
func (ps *pathState) learn(t *Term, v uint64) {
	for depth := 0; depth < 16; depth++ {
		ps.conc[t.ID] = v & mask(t.W)
		switch t.Op {
		case OpAdd:
			if t.Args[1].Op == OpConst {
				v = (v - t.Args[1].A) & mask(t.W)
				t = t.Args[0]
				continue
			}
		case OpSub:
			if t.Args[1].Op == OpConst {
				v = (v + t.Args[1].A) & mask(t.W)
				t = t.Args[0]
				continue
			}
		case OpZExt:
			if v <= mask(t.Args[0].W) {
				t = t.Args[0]
				continue
			}
		case OpSlice:
			// an invertible slice: it shows every bit the base can have
			if t.A == 0 && int(t.B) >= effWidth(t.Args[0]) {
				v >>= t.C
				t = t.Args[0]
				continue
			}
		case OpExtract:
			if t.B == 0 && t.Args[0].W <= 64 && t.Args[0].Hi <= mask(t.W) {
				t = t.Args[0]
				continue
			}
		}
		return
	}
}

// eval computes the value of t from facts learnt earlier on this path.
func (ps *pathState) eval(t *Term, depth int) (uint64, bool) {
	if t.Op == OpConst {
		return t.A, true
	}
	if v, ok := ps.conc[t.ID]; ok {
		return v, true
	}
	if depth > 12 || t.W == 0 || t.W > 64 || len(ps.conc) == 0 {
		return 0, false
	}
	m := mask(t.W)
	var a, b uint64
	var ok bool
	if len(t.Args) >= 1 {
		if a, ok = ps.eval(t.Args[0], depth+1); !ok {
			return 0, false
		}
	}
	if len(t.Args) >= 2 {
		if t.Args[1].W == 0 {
			return 0, false
		}
		if b, ok = ps.eval(t.Args[1], depth+1); !ok {
			return 0, false
		}
	}
	var r uint64
	switch t.Op {
	case OpAdd:
		r = a + b
	case OpSub:
		r = a - b
	case OpMul:
		r = a * b
	case OpAnd:
		r = a & b
	case OpOr:
		r = a | b
	case OpXor:
		r = a ^ b
	case OpShl:
		if b >= uint64(t.W) {
			r = 0
		} else {
			r = a << b
		}
	case OpLShr:
		if b >= uint64(t.W) {
			r = 0
		} else {
			r = a >> b
		}
	case OpUDiv:
		if b == 0 {
			return 0, false
		}
		r = a / b
	case OpURem:
		if b == 0 {
			return 0, false
		}
		r = a % b
	case OpZExt:
		r = a
	case OpSlice:
		r = ((a >> t.A) & mask(int(t.B))) << t.C
	case OpExtract:
		r = a >> t.B
	case OpNot:
		r = ^a
	default:
		return 0, false
	}
	r &= m
	ps.conc[t.ID] = r
	return r, true
}

// knownCond reports the truth value of a condition if it was decided before on
// this path or follows from learnt values.
func (ps *pathState) knownCond(c *Term) (bool, bool) {
	if v, ok := ps.condVal[c.ID]; ok {
		return v, true
	}
	switch c.Op {
	case OpBNot:
		if v, ok := ps.knownCond(c.Args[0]); ok {
			return !v, true
		}
	case OpEq, OpUlt, OpUle, OpSlt, OpSle:
		a, b := c.Args[0], c.Args[1]
		if a.W == 0 || a.W > 64 || len(ps.conc) == 0 {
			return false, false
		}
		x, ok1 := ps.eval(a, 0)
		y, ok2 := ps.eval(b, 0)
		if !ok1 || !ok2 {
			return false, false
		}
		switch c.Op {
		case OpEq:
			return x == y, true
		case OpUlt:
			return x < y, true
		case OpUle:
			return x <= y, true
		case OpSlt:
			return sext64(x, a.W) < sext64(y, a.W), true
		case OpSle:
			return sext64(x, a.W) <= sext64(y, a.W), true
		}
	}
	return false, false
}

// fallbackFor names the solver a query is retried on when the primary one
// answers unknown (bit-blasting and integer encodings fail on different queries).
func fallbackFor(name string) string {
	switch name {
	case "z3":
		return "cvc5-int"
	case "cvc5-int", "cvc5":
		return "z3"
	case "z3-new":
		return "cvc5-int"
	}
	return ""
}

// check decides sat(PC and extra) on the worker's solver; an unknown verdict is
// retried once on the fallback solver in a fresh session holding the same
// permanent constraints.
func (ps *pathState) check(tb *TermBank, extra []*Term, vars []*Term) (Result, map[string]uint64) {
	r, m := ps.solver.Check(tb, extra, vars)
	if r != Unknown || ps.fallback == nil {
		return r, m
	}
	fbName := fallbackFor(ps.solver.name)
	if fbName == "" {
		return r, m
	}
	if *ps.fallback == nil || (*ps.fallback).dead {
		fb, err := NewSolver(fbName, ps.ex.timeoutMs)
		if err != nil {
			return r, m
		}
		*ps.fallback = fb
	}
	fb := *ps.fallback
	fb.Reset()
	for _, a := range ps.asserted {
		fb.Assert(tb, a)
	}
	r2, m2 := fb.Check(tb, extra, vars)
	ps.ex.mu.Lock()
	ps.ex.stats.FallbackQueries++
	if r2 != Unknown {
		ps.ex.stats.FallbackDecided++
	}
	ps.ex.mu.Unlock()
	if r2 != Unknown {
		// the primary solver counted this query as unknown; it is decided after all
		return r2, m2
	}
	return r, m
}
