package main

import (
	"math/rand"
	"testing"
)

// evalTerm evaluates a term under an assignment of the variables.
func evalTerm(t *Term, env map[string]uint64) uint64 {
	m := mask(t.W)
	arg := func(i int) uint64 { return evalTerm(t.Args[i], env) }
	b2u := func(b bool) uint64 {
		if b {
			return 1
		}
		return 0
	}
	switch t.Op {
	case OpConst, OpBConst:
		return t.A
	case OpVar, OpBVar:
		return env[t.Name] & mask(maxInt(t.W, 1))
	case OpAdd:
		return (arg(0) + arg(1)) & m
	case OpSub:
		return (arg(0) - arg(1)) & m
	case OpMul:
		return (arg(0) * arg(1)) & m
	case OpUDiv:
		if arg(1) == 0 {
			return m
		}
		return arg(0) / arg(1)
	case OpURem:
		if arg(1) == 0 {
			return arg(0)
		}
		return arg(0) % arg(1)
	case OpAnd:
		return arg(0) & arg(1)
	case OpOr:
		return arg(0) | arg(1)
	case OpXor:
		return arg(0) ^ arg(1)
	case OpShl:
		if arg(1) >= uint64(t.W) {
			return 0
		}
		return (arg(0) << arg(1)) & m
	case OpLShr:
		if arg(1) >= uint64(t.W) {
			return 0
		}
		return arg(0) >> arg(1)
	case OpAShr:
		s := arg(1)
		if s >= uint64(t.W) {
			s = uint64(t.W - 1)
		}
		return uint64(sext64(arg(0), t.W)>>s) & m
	case OpNot:
		return ^arg(0) & m
	case OpNeg:
		return -arg(0) & m
	case OpExtract:
		return (arg(0) >> t.B) & m
	case OpZExt:
		return arg(0)
	case OpSExt:
		return uint64(sext64(arg(0), t.Args[0].W)) & m
	case OpSlice:
		return ((arg(0) >> t.A) & mask(int(t.B))) << t.C
	case OpIte:
		if arg(0) != 0 {
			return arg(1)
		}
		return arg(2)
	case OpEq:
		return b2u(arg(0) == arg(1))
	case OpUlt:
		return b2u(arg(0) < arg(1))
	case OpUle:
		return b2u(arg(0) <= arg(1))
	case OpSlt:
		return b2u(sext64(arg(0), t.Args[0].W) < sext64(arg(1), t.Args[0].W))
	case OpSle:
		return b2u(sext64(arg(0), t.Args[0].W) <= sext64(arg(1), t.Args[0].W))
	case OpBNot:
		return b2u(arg(0) == 0)
	case OpBAnd:
		return b2u(arg(0) != 0 && arg(1) != 0)
	case OpBOr:
		return b2u(arg(0) != 0 || arg(1) != 0)
	}
	panic("evalTerm: op")
}

// TestTermSimplifierDifferential builds random expressions through the
// simplifying constructors and checks, for random assignments, that the
// simplified term evaluates to what the unsimplified expression denotes, and
// that interval / known-bits annotations are sound.
func TestTermSimplifierDifferential(t *testing.T) {
	rng := rand.New(rand.NewSource(1))
	widths := []int{8, 16, 32, 64}
	for iter := 0; iter < 20000; iter++ {
		tb := NewTermBank()
		type pair struct {
			t   *Term
			ref func(env map[string]uint64) uint64
		}
		w := widths[rng.Intn(len(widths))]
		mk := func(name string, hi uint64) pair {
			v := tb.Var(name, w)
			if hi != 0 {
				v.Hi = hi & mask(w)
				if v.Hi < mask(w) {
					lz := 0
					for b := 63; b >= 0 && v.Hi>>uint(b) == 0; b-- {
						lz++
					}
					v.K0 |= ^(^uint64(0) >> uint(lz))
				}
			}
			return pair{v, func(env map[string]uint64) uint64 { return env[name] & mask(w) }}
		}
		his := []uint64{0, 0, 0x7f, 0xff, 0x3fff, 31, 1}
		hx, hy := his[rng.Intn(len(his))], his[rng.Intn(len(his))]
		pool := []pair{mk("x", hx), mk("y", hy)}
		cst := func() pair {
			cs := []uint64{0, 1, 0x7f, 0x80, 0xff, 7, 14, 0x3f80, mask(w), 1 << uint(w-1), rng.Uint64()}
			c := cs[rng.Intn(len(cs))] & mask(w)
			return pair{tb.Const(w, c), func(map[string]uint64) uint64 { return c }}
		}
		for step := 0; step < 8; step++ {
			a := pool[rng.Intn(len(pool))]
			b := pool[rng.Intn(len(pool))]
			if rng.Intn(3) == 0 {
				b = cst()
			}
			var p pair
			switch rng.Intn(12) {
			case 0:
				p = pair{tb.Bin(OpAdd, a.t, b.t), func(e map[string]uint64) uint64 { return (a.ref(e) + b.ref(e)) & mask(w) }}
			case 1:
				p = pair{tb.Bin(OpSub, a.t, b.t), func(e map[string]uint64) uint64 { return (a.ref(e) - b.ref(e)) & mask(w) }}
			case 2:
				p = pair{tb.Bin(OpAnd, a.t, b.t), func(e map[string]uint64) uint64 { return a.ref(e) & b.ref(e) }}
			case 3:
				p = pair{tb.Bin(OpOr, a.t, b.t), func(e map[string]uint64) uint64 { return a.ref(e) | b.ref(e) }}
			case 4:
				p = pair{tb.Bin(OpXor, a.t, b.t), func(e map[string]uint64) uint64 { return a.ref(e) ^ b.ref(e) }}
			case 5, 6:
				c := uint64(rng.Intn(w + 2))
				if rng.Intn(2) == 0 {
					c = uint64([]int{1, 7, 14, 21, 8, 24}[rng.Intn(6)])
				}
				p = pair{tb.Bin(OpShl, a.t, tb.Const(w, c)), func(e map[string]uint64) uint64 {
					if c >= uint64(w) {
						return 0
					}
					return (a.ref(e) << c) & mask(w)
				}}
			case 7, 8:
				c := uint64(rng.Intn(w + 2))
				if rng.Intn(2) == 0 {
					c = uint64([]int{1, 7, 14, 21, 8, 24}[rng.Intn(6)])
				}
				p = pair{tb.Bin(OpLShr, a.t, tb.Const(w, c)), func(e map[string]uint64) uint64 {
					if c >= uint64(w) {
						return 0
					}
					return a.ref(e) >> c
				}}
			case 9:
				// truncate to a byte and widen again (what byte(x) / uint64(b) do)
				k := []int{8, 16, 7, 1}[rng.Intn(4)]
				if k >= w {
					k = w / 2
				}
				p = pair{tb.ZExt(tb.Extract(a.t, k-1, 0), w), func(e map[string]uint64) uint64 { return a.ref(e) & mask(k) }}
			case 10:
				p = pair{tb.Un(OpNot, a.t), func(e map[string]uint64) uint64 { return ^a.ref(e) & mask(w) }}
			case 11:
				lo := rng.Intn(w)
				hi := lo + rng.Intn(w-lo)
				p = pair{tb.ZExt(tb.Extract(a.t, hi, lo), w), func(e map[string]uint64) uint64 { return (a.ref(e) >> uint(lo)) & mask(hi-lo+1) }}
			}
			pool = append(pool, p)
		}
		for trial := 0; trial < 6; trial++ {
			env := map[string]uint64{"x": rng.Uint64(), "y": rng.Uint64()}
			if hx != 0 {
				env["x"] %= (hx & mask(w)) + 1
			}
			if hy != 0 {
				env["y"] %= (hy & mask(w)) + 1
			}
			for _, p := range pool {
				got, want := evalTerm(p.t, env), p.ref(env)
				if got != want {
					t.Fatalf("iter %d: term %s evaluates to %#x, expression denotes %#x (w=%d env=%v)", iter, p.t, got, want, w, env)
				}
				if got < p.t.Lo || got > p.t.Hi || got&p.t.K0&mask(w) != 0 || ^got&p.t.K1&mask(w) != 0 {
					t.Fatalf("iter %d: unsound annotation on %s: value %#x, interval [%#x,%#x], K0 %#x K1 %#x", iter, p.t, got, p.t.Lo, p.t.Hi, p.t.K0, p.t.K1)
				}
				// comparisons must agree as well
				for _, q := range pool[:2] {
					for _, op := range []Op{OpEq, OpUlt, OpUle} {
						c := tb.Cmp(op, p.t, q.t)
						var wantB bool
						switch op {
						case OpEq:
							wantB = want == q.ref(env)
						case OpUlt:
							wantB = want < q.ref(env)
						case OpUle:
							wantB = want <= q.ref(env)
						}
						if (evalTerm(c, env) != 0) != wantB {
							t.Fatalf("iter %d: comparison %s wrong under %v", iter, c, env)
						}
					}
				}
			}
		}
	}
}
