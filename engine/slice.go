package main

// Bit-slice normal form.  A slice term is
//
//	Slice(base, lo, n, shift, W) = ((base >> lo) & mask(n)) << shift      (W bits, shift+n <= W)
//
// Every extract, zero-extend, shift by a constant and AND with a contiguous
// mask is built as a slice, slices of slices compose, slices distribute over
// OR, and ORs of adjacent slices of one base merge.  ice's varint and
// big-endian encoders cut a value into pieces with exactly these operations
// and its decoders put the pieces together again, so a decoded value
// normalises to the *same term* as the encoded one and comparisons between
// them fold without a solver query.

import "math/bits"

// effWidth is the number of low bits of t that can be non-zero.
func effWidth(t *Term) int {
	if t.W > 64 {
		return t.W
	}
	return bits.Len64(t.Hi)
}

// Slice builds the normal form; all arguments are in bits.
func (tb *TermBank) Slice(base *Term, lo, n, shift, w int) *Term {
	if base.W > 64 || w > 64 {
		panic(engineError{"slice wider than 64 bits"})
	}
	// clip to what the base can hold
	if ew := effWidth(base); lo+n > ew {
		n = ew - lo
	}
	if shift+n > w {
		n = w - shift
	}
	if n <= 0 {
		return tb.Const(w, 0)
	}
	switch base.Op {
	case OpConst:
		return tb.Const(w, ((base.A>>uint(lo))&mask(n))<<uint(shift))
	case OpSlice:
		// base = bits [lo2, lo2+n2) of b2 placed at [sh2, sh2+n2)
		b2, lo2, n2, sh2 := base.Args[0], int(base.A), int(base.B), int(base.C)
		s, e := lo, lo+n
		if s < sh2 {
			s = sh2
		}
		if e > sh2+n2 {
			e = sh2 + n2
		}
		if e <= s {
			return tb.Const(w, 0)
		}
		return tb.Slice(b2, lo2+(s-sh2), e-s, shift+(s-lo), w)
	case OpOr:
		// bitwise: distribute
		return tb.Bin(OpOr, tb.Slice(base.Args[0], lo, n, shift, w), tb.Slice(base.Args[1], lo, n, shift, w))
	}
	if lo == 0 && shift == 0 && w == base.W && n >= effWidth(base) {
		return base
	}
	t := tb.mk(&Term{Op: OpSlice, W: w, Args: []*Term{base}, A: uint64(lo), B: uint64(n), C: uint64(shift)})
	if t.Lo == t.Hi {
		return tb.Const(w, t.Lo)
	}
	return t
}

// sliceView describes t as a slice of some base, if it has that shape.
func sliceView(t *Term) (base *Term, lo, n, shift int, ok bool) {
	if t.W > 64 {
		return nil, 0, 0, 0, false
	}
	if t.Op == OpSlice {
		return t.Args[0], int(t.A), int(t.B), int(t.C), true
	}
	if t.Op == OpConst {
		return nil, 0, 0, 0, false
	}
	ew := effWidth(t)
	if ew == 0 {
		return nil, 0, 0, 0, false
	}
	return t, 0, ew, 0, true
}

// mergeSlices returns a|b as one slice when both are adjacent pieces of one base.
func (tb *TermBank) mergeSlices(a, b *Term) *Term {
	ba, la, na, sa, ok1 := sliceView(a)
	bb, lb, nb, sb, ok2 := sliceView(b)
	if !ok1 || !ok2 || ba != bb {
		return nil
	}
	if la+na == lb && sa+na == sb {
		return tb.Slice(ba, la, na+nb, sa, a.W)
	}
	if lb+nb == la && sb+nb == sa {
		return tb.Slice(ba, lb, na+nb, sb, a.W)
	}
	return nil
}

// contiguousMask reports whether m = mask(k) << j.
func contiguousMask(m uint64) (j, k int, ok bool) {
	if m == 0 {
		return 0, 0, false
	}
	j = bits.TrailingZeros64(m)
	x := m >> uint(j)
	if x&(x+1) != 0 {
		return 0, 0, false
	}
	return j, bits.Len64(x), true
}
