package main

// Minimal emulation of package reflect: only reflect.TypeOf(x).Size()/String()/Kind()
// (ice's sizes.go) and the interpreter's own error type.

import (
	"go/token"
	"go/types"

	"golang.org/x/tools/go/ssa"
)

type opaqueType struct {
	types.Type
	name string
}

func (t *opaqueType) String() string { return t.name }

// A bogus "reflect" type-checker package.  Shared across interpreters.
var reflectTypesPackage = types.NewPackage("reflect", "reflect")

// rtype is the concrete type the interpreter uses to implement the
// reflect.Type interface.
var rtypeType = makeNamedType("rtype", &opaqueType{nil, "rtype"})

// error is an (interpreted) named type whose underlying type is string.
// The interpreter uses it for all implementations of the built-in error
// interface that it creates.
var errorType = makeNamedType("error", &opaqueType{nil, "error"})

func makeNamedType(name string, underlying types.Type) *types.Named {
	obj := types.NewTypeName(token.NoPos, reflectTypesPackage, name, nil)
	return types.NewNamed(obj, underlying, nil)
}

func makeReflectType(rt rtype) value {
	return iface{rtypeType, rt}
}

func ext۰reflect۰rtype۰Size(fr *frame, args []value) value {
	return uintptr(fr.i.sizes.Sizeof(args[0].(rtype).t))
}

func ext۰reflect۰rtype۰String(fr *frame, args []value) value {
	return args[0].(rtype).t.String()
}

func ext۰reflect۰TypeOf(fr *frame, args []value) value {
	return makeReflectType(rtype{args[0].(iface).t})
}

func ext۰reflect۰error۰Error(fr *frame, args []value) value {
	return args[0]
}

// newMethod creates a new method of the specified name, package and receiver type.
func newMethod(pkg *ssa.Package, recvType types.Type, name string) *ssa.Function {
	sig := types.NewSignature(types.NewVar(token.NoPos, nil, "recv", recvType), nil, nil, false)
	fn := pkg.Prog.NewFunction(name, sig, "fake reflect method")
	fn.Pkg = pkg
	return fn
}

func initReflect(p *Program) {
	p.reflectPackage = &ssa.Package{
		Prog:    p.prog,
		Pkg:     reflectTypesPackage,
		Members: make(map[string]ssa.Member),
	}
	p.rtypeMethods = methodSet{
		"Size":   newMethod(p.reflectPackage, rtypeType, "Size"),
		"String": newMethod(p.reflectPackage, rtypeType, "String"),
	}
	p.errorMethods = methodSet{
		"Error": newMethod(p.reflectPackage, errorType, "Error"),
	}
}
