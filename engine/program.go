package main

// Loading the target program (real ice + harness overlay + model packages) and
// running one path.

import (
	"fmt"
	"go/token"
	"go/types"
	"os"
	"path/filepath"
	"runtime"
	"runtime/debug"
	"sort"
	"strings"
	"sync"
	"time"

	"golang.org/x/tools/go/packages"
	"golang.org/x/tools/go/ssa"
	"golang.org/x/tools/go/ssa/ssautil"
)

type fnInfo struct {
	ext      externalFn
	skipInit bool
}

type Program struct {
	prog               *ssa.Program
	icePkg             *ssa.Package
	sizes              types.Sizes
	runtimeErrorString types.Type
	reflectPackage     *ssa.Package
	errorMethods       methodSet
	rtypeMethods       methodSet
	initAllowed        map[string]bool
	fnMu               sync.RWMutex
	fnCache            map[*ssa.Function]*fnInfo
	slotCache          sync.Map // *ssa.Function -> map[ssa.Value]int
	LoadS              float64
	overlayFiles       []string
}

// packages whose initializers are executed on every path; all others are
// skipped (their package-level variables stay zero).
var initAllow = []string{
	icePath,
	icePath + "/zz_vp_ref",
	"github.com/blugelabs/bluge_segment_api",
	"github.com/RoaringBitmap/roaring",
	"github.com/blevesearch/vellum",
	"github.com/klauspost/compress/zstd",
	"io", "bytes", "bufio", "encoding/binary", "sort",
}

type LoadConfig struct {
	RepoDir  string
	Overlay  map[string]string // virtual path -> real file
	ModFile  string
	Tags     string
	Patterns []string
}

func LoadProgram(lc LoadConfig) (*Program, error) {
	t0 := time.Now()
	ov := map[string][]byte{}
	var files []string
	for virt, real := range lc.Overlay {
		b, err := os.ReadFile(real)
		if err != nil {
			return nil, err
		}
		ov[virt] = b
		files = append(files, real)
	}
	sort.Strings(files)
	flags := []string{"-tags=" + lc.Tags}
	if lc.ModFile != "" {
		flags = append(flags, "-modfile="+lc.ModFile)
	}
	cfg := &packages.Config{
		Mode:       packages.LoadAllSyntax,
		Dir:        lc.RepoDir,
		BuildFlags: flags,
		Overlay:    ov,
		Env:        append(os.Environ(), "GOFLAGS=-mod=mod", "GOPROXY=off", "GOSUMDB=off", "GOTOOLCHAIN=local"),
	}
	pats := lc.Patterns
	if len(pats) == 0 {
		pats = []string{"."}
	}
	pkgs, err := packages.Load(cfg, pats...)
	if err != nil {
		return nil, err
	}
	nerr := 0
	packages.Visit(pkgs, nil, func(p *packages.Package) {
		for _, e := range p.Errors {
			fmt.Fprintf(os.Stderr, "LOAD-ERROR %s: %v\n", p.PkgPath, e)
			nerr++
		}
	})
	if nerr > 0 {
		return nil, fmt.Errorf("%d package load errors", nerr)
	}
	prog, _ := ssautil.AllPackages(pkgs, ssa.InstantiateGenerics)
	prog.Build()
	p := &Program{prog: prog, fnCache: map[*ssa.Function]*fnInfo{}, initAllowed: map[string]bool{}, overlayFiles: files}
	for _, a := range initAllow {
		p.initAllowed[a] = true
	}
	for _, sp := range prog.AllPackages() {
		if sp.Pkg.Path() == icePath {
			p.icePkg = sp
		}
	}
	if p.icePkg == nil {
		return nil, fmt.Errorf("package %s not loaded", icePath)
	}
	p.sizes = types.SizesFor("gc", "amd64")
	rt := prog.ImportedPackage("runtime")
	if rt == nil {
		return nil, fmt.Errorf("runtime package missing")
	}
	p.runtimeErrorString = rt.Type("errorString").Object().Type()
	initReflect(p)
	p.LoadS = time.Since(t0).Seconds()
	return p, nil
}

func (p *Program) fnInfo(fn *ssa.Function) *fnInfo {
	p.fnMu.RLock()
	fi := p.fnCache[fn]
	p.fnMu.RUnlock()
	if fi != nil {
		return fi
	}
	fi = &fnInfo{}
	name := fn.String()
	if fn.Pkg != nil && fn.Pkg == p.icePkg && strings.HasPrefix(fn.Name(), "vp") && fn.Signature.Recv() == nil {
		fi.ext = p.intrinsic(fn.Name())
	}
	if fi.ext == nil {
		fi.ext = externals[name]
	}
	if fi.ext == nil && fn.Name() == "init" && fn.Synthetic == "package initializer" && fn.Pkg != nil {
		if !p.initAllowed[fn.Pkg.Pkg.Path()] {
			fi.skipInit = true
		}
	}
	p.fnMu.Lock()
	p.fnCache[fn] = fi
	p.fnMu.Unlock()
	return fi
}

func (p *Program) newInterpreter(ps *pathState) *interpreter {
	i := &interpreter{
		p:                  p,
		prog:               p.prog,
		globals:            make(map[*ssa.Global]*value),
		sizes:              p.sizes,
		reflectPackage:     p.reflectPackage,
		errorMethods:       p.errorMethods,
		rtypeMethods:       p.rtypeMethods,
		runtimeErrorString: p.runtimeErrorString,
		tb:                 NewTermBank(),
		ps:                 ps,
		funcsSeen:          map[*ssa.Function]int{},
		pools:              map[*value][]value{},
		cancelAt:           -1,
		faultAt:            -1,
		wsShared:           map[*value]bool{},
		wsWrites:           map[string]int{},
	}
	return i
}

// global returns (creating lazily) the cell of a package-level variable.
func (i *interpreter) global(g *ssa.Global) *value {
	if c, ok := i.globals[g]; ok {
		return c
	}
	cell := zero(mustDeref(g.Type()))
	c := &cell
	i.globals[g] = c
	return c
}

// runPath executes the harness once along the given decision prefix.
func (ex *Explorer) runPath(prefix []Decision, solver *Solver, fallback **Solver) (ps *pathState, out Outcome, msg string, funcs map[string]int) {
	solver.Reset()
	ps = &pathState{ex: ex, prefix: prefix, solver: solver, varCnt: map[string]int{}, reached: map[string]bool{}, conc: map[int]uint64{}, condVal: map[int]bool{}, fallback: fallback}
	i := ex.prog.newInterpreter(ps)
	out = OutOK
	func() {
		defer func() {
			r := recover()
			if r == nil {
				return
			}
			switch e := r.(type) {
			case pathInfeasible:
				out = OutInfeasible
			case pathAbort:
				out, msg = e.out, e.msg
				if e.out == OutDeadlock {
					i.addCandidateSafe("deadlock", "deadlock", e.msg)
				}
			case engineError:
				out, msg = OutEngine, e.msg+i.stack()
			case targetPanic:
				out, msg = OutPanic, "panic: "+toString(e.v)+" at "+i.panicPos+" in "+i.panicSite
				i.addCandidateSafe("panic", "panic in "+i.panicSite, msg)
			case targetRuntimePanic:
				out, msg = OutPanic, "panic: runtime error: "+e.msg+" at "+i.panicPos+" in "+i.panicSite
				i.addCandidateSafe("panic", "panic in "+i.panicSite, msg)
			case runtime.Error:
				out, msg = OutEngine, fmt.Sprintf("engine run-time error: %v\n%s%s", e, debug.Stack(), i.stack())
			default:
				out, msg = OutEngine, fmt.Sprintf("engine panic: %v\n%s", e, debug.Stack())
			}
		}()
		call(i, nil, token.NoPos, ex.prog.icePkg.Func("init"), nil)
		fn := ex.prog.icePkg.Func(ex.harness)
		if fn == nil {
			panic(engineError{"no such harness function: " + ex.harness})
		}
		call(i, nil, token.NoPos, fn, nil)
		if ps.pos < len(ps.prefix) {
			panic(engineError{fmt.Sprintf("replay divergence: %d prefix decisions unused", len(ps.prefix)-ps.pos)})
		}
	}()
	if out == OutOK && ex.wantSample() {
		func() {
			defer func() { recover() }()
			r, m := i.model(nil)
			if r == Sat {
				s := map[string]interface{}{"harness": ex.harness, "choices": ps.choices, "decisions": len(ps.trace), "reached": sortedBoolKeys(ps.reached)}
				vals := map[string]string{}
				for k, v := range m {
					vals[k] = fmt.Sprintf("0x%x", v)
				}
				s["values"] = vals
				ps.sample = s
				ps.sampleCand = &Candidate{Harness: ex.harness, Kind: "sample", Values: m, Choices: append([]uint64(nil), ps.choices...)}
			}
		}()
	}
	funcs = map[string]int{}
	for f, n := range i.funcsSeen {
		if f.Pkg == ex.prog.icePkg || (f.Parent() != nil && f.Parent().Pkg == ex.prog.icePkg) {
			funcs[f.String()] += n
		}
	}
	return
}

func (i *interpreter) addCandidateSafe(kind, label, msg string) {
	defer func() { recover() }()
	i.addCandidate(kind, label, msg, nil)
}

func panicLabel(msg string) string {
	// strip volatile numbers so that the same site maps to one label
	var sb strings.Builder
	for _, c := range msg {
		if c >= '0' && c <= '9' {
			continue
		}
		sb.WriteRune(c)
	}
	s := sb.String()
	if len(s) > 100 {
		s = s[:100]
	}
	return s
}

func sortedBoolKeys(m map[string]bool) []string {
	var ks []string
	for k := range m {
		ks = append(ks, k)
	}
	sort.Strings(ks)
	return ks
}

func (ex *Explorer) wantSample() bool {
	ex.mu.Lock()
	defer ex.mu.Unlock()
	ex.pathSeq++
	if len(ex.stats.Samples) >= ex.maxSamples {
		return false
	}
	if len(ex.stats.Samples) < 1 || ex.maxSamples > 100 {
		return true // validation sweeps (VP_MAXSAMPLES) take every path
	}
	// seeded, sparse choice of further paths
	h := uint64(ex.pathSeq)*0x9E3779B97F4A7C15 + uint64(ex.sampleSeed)*0xBF58476D1CE4E5B9
	h ^= h >> 29
	return h%5 == 0
}

func absPath(p string) string {
	a, err := filepath.Abs(p)
	if err != nil {
		return p
	}
	return a
}

// slotsOf numbers every SSA value of fn (parameters, free variables, locals,
// value-producing instructions) once; the map is shared by all frames of fn.
func (p *Program) slotsOf(fn *ssa.Function) map[ssa.Value]int {
	if m, ok := p.slotCache.Load(fn); ok {
		return m.(map[ssa.Value]int)
	}
	m := map[ssa.Value]int{}
	add := func(v ssa.Value) {
		if _, ok := m[v]; !ok {
			m[v] = len(m)
		}
	}
	for _, v := range fn.Params {
		add(v)
	}
	for _, v := range fn.FreeVars {
		add(v)
	}
	for _, v := range fn.Locals {
		add(v)
	}
	for _, b := range fn.Blocks {
		for _, in := range b.Instrs {
			if v, ok := in.(ssa.Value); ok {
				add(v)
			}
		}
	}
	if fn.Recover != nil {
		for _, in := range fn.Recover.Instrs {
			if v, ok := in.(ssa.Value); ok {
				add(v)
			}
		}
	}
	act, _ := p.slotCache.LoadOrStore(fn, m)
	return act.(map[ssa.Value]int)
}
