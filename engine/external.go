package main

// Emulated functions: assembly/runtime leaves, models of sync/crc32/fmt and the
// harness intrinsics (vp*).

import (
	"bytes"
	"fmt"
	"hash/crc32"
	"math"
	"sort"
	"strings"

	"go/types"

	"golang.org/x/tools/go/ssa"
)

type externalFn func(fr *frame, args []value) value

const icePath = "github.com/blugelabs/ice/v2"

// Key strings are from Function.String().
var externals map[string]externalFn

func init() {
	externals = map[string]externalFn{
	"(reflect.error).Error":  ext۰reflect۰error۰Error,
	"(reflect.rtype).Size":   ext۰reflect۰rtype۰Size,
	"(reflect.rtype).String": ext۰reflect۰rtype۰String,
	"reflect.TypeOf":         ext۰reflect۰TypeOf,

	"bytes.Equal":              extBytesEqual,
	"bytes.Compare":            extBytesCompare,
	"bytes.IndexByte":          extBytesIndexByte,
	"bytes.Index":              extBytesIndex,
	"internal/bytealg.IndexByte": extBytesIndexByte,
	"internal/bytealg.Equal":   extBytesEqual,
	"internal/bytealg.Compare": extBytesCompare,
	"math.Float32bits":         extFloat32bits,
	"math.Float32frombits":     extFloat32frombits,
	"math.Float64bits":         func(fr *frame, a []value) value { return math.Float64bits(a[0].(float64)) },
	"math.Float64frombits":     func(fr *frame, a []value) value { return math.Float64frombits(a[0].(uint64)) },
	"sort.Strings":             extSortStrings,
	"strings.Compare":          func(fr *frame, a []value) value { return strings.Compare(a[0].(string), a[1].(string)) },

	"fmt.Errorf":   extFmtErrorf,
	"fmt.Sprintf":  extFmtSprintf,
	"fmt.Sprint":   func(fr *frame, a []value) value { return "fmt.Sprint(...)" },
	"fmt.Println":  func(fr *frame, a []value) value { return tuple{0, iface{}} },
	"fmt.Printf":   func(fr *frame, a []value) value { return tuple{0, iface{}} },
	"log.Panicf":   func(fr *frame, a []value) value { panic(targetPanic{iface{types.Typ[types.String], "log.Panicf: " + a[0].(string)}}) },
	"log.Printf":   func(fr *frame, a []value) value { return nil },
	"errors.New":   func(fr *frame, a []value) value { return newOpaqueError(a[0].(string)) },

	"hash/crc32.Update": extCrcUpdate,
	"hash/crc32.ChecksumIEEE": func(fr *frame, a []value) value {
		return extCrcUpdate(fr, []value{uint32(0), nil, a[0]})
	},

	"(*sync.Mutex).Lock":     extMutexLock,
	"(*sync.Mutex).Unlock":   extMutexUnlock,
	"(*sync.Mutex).TryLock":  extMutexTryLock,
	"(*sync.RWMutex).Lock":   extMutexLock,
	"(*sync.RWMutex).Unlock": extMutexUnlock,
	"(*sync.Once).Do":        extOnceDo,
	"(*sync.Pool).Get":       extPoolGet,
	"(*sync.Pool).Put":       extPoolPut,

	"math/bits.Len64":           func(fr *frame, a []value) value { return extBitsLen(fr, a[0], 64) },
	"math/bits.Len32":           func(fr *frame, a []value) value { return extBitsLen(fr, a[0], 32) },
	"math/bits.Len16":           func(fr *frame, a []value) value { return extBitsLen(fr, a[0], 16) },
	"math/bits.Len8":            func(fr *frame, a []value) value { return extBitsLen(fr, a[0], 8) },
	"math/bits.Len":             func(fr *frame, a []value) value { return extBitsLen(fr, a[0], 64) },
	"math/bits.LeadingZeros64":  func(fr *frame, a []value) value { return extBitsLz(fr, a[0], 64) },
	"math/bits.LeadingZeros32":  func(fr *frame, a []value) value { return extBitsLz(fr, a[0], 32) },
	"math/bits.LeadingZeros":    func(fr *frame, a []value) value { return extBitsLz(fr, a[0], 64) },
	"math/bits.TrailingZeros64": func(fr *frame, a []value) value { return extBitsTz(fr, a[0], 64) },
	"math/bits.TrailingZeros32": func(fr *frame, a []value) value { return extBitsTz(fr, a[0], 32) },
	"math/bits.OnesCount64":     func(fr *frame, a []value) value { return extBitsPop(fr, a[0], 64) },
	"math/bits.OnesCount32":     func(fr *frame, a []value) value { return extBitsPop(fr, a[0], 32) },
	"internal/bytealg.MakeNoZero": func(fr *frame, a []value) value {
		n := fr.i.concInt(a[0], "MakeNoZero")
		out := make([]value, n)
		for k := range out {
			out[k] = uint8(0)
		}
		return out
	},
	"runtime.KeepAlive": func(fr *frame, a []value) value { return nil },
	"runtime.GC":        func(fr *frame, a []value) value { return nil },
	}
}

// ---- errors ----

// opaque errors made by the engine are pointers so that identity comparison works
func newOpaqueError(msg string) value {
	return iface{errorType, msg}
}

func extFmtErrorf(fr *frame, a []value) value {
	return newOpaqueError("fmt.Errorf: " + a[0].(string))
}

// fmt.Sprintf: formatted for real when every argument is a concrete integer,
// string or bool (so that e.g. generated names stay distinct); otherwise an
// opaque string (formatting is outside every claim).
func extFmtSprintf(fr *frame, a []value) value {
	format := a[0].(string)
	var args []interface{}
	if len(a) > 1 {
		if vs, ok := a[1].([]value); ok {
			for _, v := range vs {
				if ifc, ok := v.(iface); ok {
					v = ifc.v
				}
				switch x := v.(type) {
				case int, int8, int16, int32, int64, uint, uint8, uint16, uint32, uint64, uintptr, string, bool:
					args = append(args, x)
				default:
					return "fmt.Sprintf: " + format
				}
			}
		}
	}
	return fmt.Sprintf(format, args...)
}

// ---- bytes ----

func concBytes(fr *frame, v value, what string) []byte {
	x := v.([]value)
	b := make([]byte, len(x))
	for k := range x {
		switch e := x[k].(type) {
		case uint8:
			b[k] = e
		case symInt:
			b[k] = fr.i.concretize(e, what).(uint8)
		default:
			panic(engineError{fmt.Sprintf("%s: element %T", what, e)})
		}
	}
	return b
}

func anySym(v value) bool {
	for _, e := range v.([]value) {
		if isSym(e) {
			return true
		}
	}
	return false
}

func extBytesEqual(fr *frame, a []value) value {
	x, y := a[0].([]value), a[1].([]value)
	if len(x) != len(y) {
		return false
	}
	if anySym(x) || anySym(y) {
		tb := fr.i.tb
		acc := tb.Bool(true)
		for k := range x {
			p, _ := fr.i.intTerm(x[k])
			q, _ := fr.i.intTerm(y[k])
			acc = tb.BAnd(acc, tb.Cmp(OpEq, p, q))
		}
		return mkBool(acc)
	}
	return bytes.Equal(concBytes(fr, x, "bytes.Equal"), concBytes(fr, y, "bytes.Equal"))
}

func extBytesCompare(fr *frame, a []value) value {
	x, y := a[0].([]value), a[1].([]value)
	if anySym(x) || anySym(y) {
		// lexicographic comparison as an ite chain over the common prefix
		tb := fr.i.tb
		n := len(x)
		if len(y) < n {
			n = len(y)
		}
		var tail uint64
		switch {
		case len(x) < len(y):
			tail = ^uint64(0)
		case len(x) > len(y):
			tail = 1
		}
		r := tb.Const(64, tail)
		for k := n - 1; k >= 0; k-- {
			p, _ := fr.i.intTerm(x[k])
			q, _ := fr.i.intTerm(y[k])
			r = tb.Ite(tb.Cmp(OpUlt, p, q), tb.Const(64, ^uint64(0)),
				tb.Ite(tb.Cmp(OpUlt, q, p), tb.Const(64, 1), r))
		}
		return mkInt(types.Int, r)
	}
	return bytes.Compare(concBytes(fr, a[0], "bytes.Compare"), concBytes(fr, a[1], "bytes.Compare"))
}

func extBytesIndexByte(fr *frame, a []value) value {
	if s, ok := a[0].(string); ok {
		return strings.IndexByte(s, a[1].(byte))
	}
	c := a[1]
	if s, ok := c.(symInt); ok {
		c = fr.i.concretize(s, "IndexByte c")
	}
	return bytes.IndexByte(concBytes(fr, a[0], "bytes.IndexByte"), c.(byte))
}

func extBytesIndex(fr *frame, a []value) value {
	return bytes.Index(concBytes(fr, a[0], "bytes.Index"), concBytes(fr, a[1], "bytes.Index sep"))
}

func extSortStrings(fr *frame, a []value) value {
	x := a[0].([]value)
	sort.Slice(x, func(i, j int) bool { return x[i].(string) < x[j].(string) })
	return nil
}

// ---- math ----

func extFloat32bits(fr *frame, a []value) value {
	switch x := a[0].(type) {
	case float32:
		return math.Float32bits(x)
	case symF32:
		return mkInt(types.Uint32, x.Bits)
	}
	panic(engineError{fmt.Sprintf("Float32bits(%T)", a[0])})
}

func extFloat32frombits(fr *frame, a []value) value {
	switch x := a[0].(type) {
	case uint32:
		return math.Float32frombits(x)
	case symInt:
		return symF32{Bits: x.T}
	}
	panic(engineError{fmt.Sprintf("Float32frombits(%T)", a[0])})
}

// ---- crc32: real table on concrete data, uninterpreted fold otherwise ----

func extCrcUpdate(fr *frame, a []value) value {
	i := fr.i
	data := a[2].([]value)
	crc := a[0]
	allConc := !isSym(crc)
	for _, e := range data {
		if isSym(e) {
			allConc = false
			break
		}
	}
	if allConc {
		return crc32.Update(crc.(uint32), crc32.IEEETable, concBytes(fr, data, "crc"))
	}
	// crc' = F(crc, b): concrete steps are folded with the real table for as
	// long as the running value is concrete.
	cur := crc
	for _, e := range data {
		cc, ok1 := cur.(uint32)
		ec, ok2 := e.(uint8)
		if ok1 && ok2 {
			cur = crc32.Update(cc, crc32.IEEETable, []byte{ec})
			continue
		}
		ct, _ := i.intTerm(cur)
		et, _ := i.intTerm(e)
		cur = mkInt(types.Uint32, i.tb.UF("vp_crc_step", 32, ct, et))
	}
	return cur
}

// ---- sync ----

// sync.Mutex{state int32, sema uint32}: state!=0 means held.
func mutexState(a []value) *value {
	p := a[0].(*value)
	if p == nil {
		panic(targetRuntimeError("invalid memory address or nil pointer dereference (nil mutex)"))
	}
	s := (*p).(structure)
	if inner, ok := s[0].(structure); ok { // RWMutex{w Mutex,...} or go1.24 Mutex{_ noCopy; mu isync.Mutex}
		return &inner[0]
	}
	return &s[0]
}

func extMutexLock(fr *frame, a []value) value {
	st := mutexState(a)
	if asInt64(*st) != 0 {
		panic(pathAbort{OutDeadlock, "sync.Mutex.Lock on a mutex already held by the only goroutine, in " + shortFn(fr.caller.fn.String())})
	}
	*st = int32(1)
	fr.i.wsLocks++
	return nil
}

func extMutexTryLock(fr *frame, a []value) value {
	st := mutexState(a)
	if asInt64(*st) != 0 {
		return false
	}
	*st = int32(1)
	fr.i.wsLocks++
	return true
}

func extMutexUnlock(fr *frame, a []value) value {
	st := mutexState(a)
	if asInt64(*st) == 0 {
		panic(targetPanic{iface{types.Typ[types.String], "sync: unlock of unlocked mutex"}})
	}
	*st = int32(0)
	fr.i.wsLocks--
	return nil
}

func extOnceDo(fr *frame, a []value) value {
	p := a[0].(*value)
	s := (*p).(structure)
	// Once{done atomic.Uint32 / uint32, m Mutex}
	doneCell := &s[0]
	if inner, ok := (*doneCell).(structure); ok {
		// atomic.Uint32{_ noCopy, v uint32}
		doneCell = &inner[len(inner)-1]
	}
	if asInt64(*doneCell) != 0 {
		return nil
	}
	fr.i.wsLocks++
	call(fr.i, fr, fr.fn.Pos(), a[1], nil)
	fr.i.wsLocks--
	*doneCell = uint32(1)
	return nil
}

// sync.Pool model: Get returns a recycled object when recycling is switched on
// and one is available, else New().
func extPoolGet(fr *frame, a []value) value {
	p := a[0].(*value)
	i := fr.i
	if i.poolReuse {
		if l := i.pools[p]; len(l) > 0 {
			v := l[len(l)-1]
			i.pools[p] = l[:len(l)-1]
			return v
		}
	}
	s := (*p).(structure)
	newFn := s[len(s)-1]
	if f, ok := newFn.(*ssa.Function); ok && f == nil {
		return iface{}
	}
	return call(i, fr, fr.fn.Pos(), newFn, nil)
}

func extPoolPut(fr *frame, a []value) value {
	p := a[0].(*value)
	fr.i.pools[p] = append(fr.i.pools[p], a[1])
	return nil
}

// ---- harness intrinsics ----

func (p *Program) intrinsic(name string) externalFn {
	mkVar := func(k types.BasicKind) externalFn {
		return func(fr *frame, a []value) value {
			w, _ := kindWidth(k)
			return mkInt(k, fr.i.freshVar(a[0].(string), w))
		}
	}
	switch name {
	case "vpU64":
		return mkVar(types.Uint64)
	case "vpU32":
		return mkVar(types.Uint32)
	case "vpU16":
		return mkVar(types.Uint16)
	case "vpU8":
		return mkVar(types.Uint8)
	case "vpInt":
		return mkVar(types.Int)
	case "vpBool":
		return func(fr *frame, a []value) value {
			t := fr.i.freshVar(a[0].(string), 1)
			return mkBool(fr.i.tb.Cmp(OpEq, t, fr.i.tb.Const(1, 1)))
		}
	case "vpRange":
		return func(fr *frame, a []value) value {
			i := fr.i
			lo, hi := a[1].(uint64), a[2].(uint64)
			t := i.freshVar(a[0].(string), 64)
			if lo == hi {
				i.assertPC(i.tb.Cmp(OpEq, t, i.tb.Const(64, lo)))
				return lo
			}
			// narrow the static interval, and tell the solver
			t.Lo, t.Hi = lo, hi
			if hi < ^uint64(0) {
				lz := 0
				for b := 63; b >= 0 && hi>>uint(b) == 0; b-- {
					lz++
				}
				if lz > 0 {
					t.K0 |= ^(^uint64(0) >> uint(lz))
				}
			}
			i.assertPC(i.tb.mk(&Term{Op: OpUle, Args: []*Term{i.tb.Const(64, lo), t}}))
			i.assertPC(i.tb.mk(&Term{Op: OpUle, Args: []*Term{t, i.tb.Const(64, hi)}}))
			return mkInt(types.Uint64, t)
		}
	case "vpChoice":
		return func(fr *frame, a []value) value {
			return fr.i.choice(int(fr.i.concInt(a[1], "vpChoice n")), a[0].(string))
		}
	case "vpAssume":
		return func(fr *frame, a []value) value { fr.i.checkAssume(a[0]); return nil }
	case "vpAssert":
		return func(fr *frame, a []value) value { fr.i.checkAssert(a[0], a[1].(string)); return nil }
	case "vpReach":
		return func(fr *frame, a []value) value { fr.i.ps.reached[a[0].(string)] = true; return nil }
	case "vpNote":
		return func(fr *frame, a []value) value {
			fr.i.ps.notes = append(fr.i.ps.notes, a[0].(string))
			return nil
		}
	case "vpAnd":
		return func(fr *frame, a []value) value {
			if x, ok := a[0].(bool); ok {
				if !x {
					return false
				}
				return a[1]
			}
			if y, ok := a[1].(bool); ok {
				if !y {
					return false
				}
				return a[0]
			}
			return mkBool(fr.i.tb.BAnd(fr.i.boolTerm(a[0]), fr.i.boolTerm(a[1])))
		}
	case "vpDataFromReaderAt":
		return func(fr *frame, a []value) value {
			// segment.Data{mem []byte; r io.ReaderAt; sz int}
			var cell value = structure{[]value(nil), a[0], a[1]}
			return &cell
		}
	case "vpThorough":
		return func(fr *frame, a []value) value { return fr.i.ps.ex.tier > 0 }
	case "vpSymbolic":
		return func(fr *frame, a []value) value { return true }
	case "vpPoolReuse":
		return func(fr *frame, a []value) value { fr.i.poolReuse = a[0].(bool); return nil }
	case "vpPoolFlush":
		// every sync.Pool is emptied (natively: two GC cycles): the next Get calls New
		return func(fr *frame, a []value) value {
			for k := range fr.i.pools {
				delete(fr.i.pools, k)
			}
			return nil
		}
	case "vpMapReverse":
		return func(fr *frame, a []value) value { fr.i.mapRev = a[0].(bool); return nil }
	case "vpCancelAt":
		return func(fr *frame, a []value) value {
			fr.i.cancelAt = int(fr.i.concInt(a[0], "vpCancelAt"))
			fr.i.polls = 0
			return nil
		}
	case "vpPolls":
		return func(fr *frame, a []value) value { return fr.i.polls }
	case "vpWriteSetBegin":
		return func(fr *frame, a []value) value {
			i := fr.i
			i.wsShared = map[*value]bool{}
			seen := map[interface{}]bool{}
			for _, r := range a[0].([]value) {
				i.markShared(r, seen)
			}
			// package-level variables of ice
			for g, cell := range i.globals {
				if g.Pkg == i.p.icePkg && !strings.HasPrefix(g.Name(), "vp") && !strings.HasPrefix(g.Name(), "init$") {
					i.wsShared[cell] = true
					i.markShared(*cell, seen)
				}
			}
			i.wsWrites = map[string]int{}
			i.wsActive = true
			return nil
		}
	case "vpWriteSetEnd":
		return func(fr *frame, a []value) value {
			i := fr.i
			i.wsActive = false
			var keys []string
			for k := range i.wsWrites {
				keys = append(keys, k)
			}
			sort.Strings(keys)
			out := make([]value, len(keys))
			for k := range keys {
				out[k] = keys[k]
			}
			return out
		}
	case "vpIsSymbolicValue":
		return func(fr *frame, a []value) value { return isSym(a[0].(iface).v) }
	}
	return nil
}

// ---- math/bits: table driven in the standard library, so summarised here ----

func bitsLenTerm(i *interpreter, x *Term, w int) *Term {
	tb := i.tb
	// Len(x) = number of k in [0,w) with x >= 2^k, as an ite chain from the top
	r := tb.Const(64, 0)
	for k := 0; k < w; k++ {
		r = tb.Ite(tb.Cmp(OpUle, tb.Const(w, uint64(1)<<uint(k)), x), tb.Const(64, uint64(k+1)), r)
	}
	return r
}

func extBitsLen(fr *frame, v value, w int) value {
	if _, bitsv, ok := concKind(v); ok {
		n := 0
		for x := bitsv & mask(w); x != 0; x >>= 1 {
			n++
		}
		return n
	}
	t, _ := fr.i.intTerm(v)
	return mkInt(types.Int, bitsLenTerm(fr.i, t, w))
}

func extBitsLz(fr *frame, v value, w int) value {
	if _, bitsv, ok := concKind(v); ok {
		n := 0
		for x := bitsv & mask(w); x != 0; x >>= 1 {
			n++
		}
		return w - n
	}
	t, _ := fr.i.intTerm(v)
	return mkInt(types.Int, fr.i.tb.Bin(OpSub, fr.i.tb.Const(64, uint64(w)), bitsLenTerm(fr.i, t, w)))
}

func extBitsTz(fr *frame, v value, w int) value {
	if _, bitsv, ok := concKind(v); ok {
		x := bitsv & mask(w)
		if x == 0 {
			return w
		}
		n := 0
		for ; x&1 == 0; x >>= 1 {
			n++
		}
		return n
	}
	t, _ := fr.i.intTerm(v)
	tb := fr.i.tb
	r := tb.Const(64, uint64(w))
	for k := w - 1; k >= 0; k-- {
		bit := tb.Cmp(OpEq, tb.Extract(t, k, k), tb.Const(1, 1))
		r = tb.Ite(bit, tb.Const(64, uint64(k)), r)
	}
	return mkInt(types.Int, r)
}

func extBitsPop(fr *frame, v value, w int) value {
	if _, bitsv, ok := concKind(v); ok {
		n := 0
		for x := bitsv & mask(w); x != 0; x &= x - 1 {
			n++
		}
		return n
	}
	t, _ := fr.i.intTerm(v)
	tb := fr.i.tb
	r := tb.Const(64, 0)
	for k := 0; k < w; k++ {
		r = tb.Bin(OpAdd, r, tb.ZExt(tb.Extract(t, k, k), 64))
	}
	return mkInt(types.Int, r)
}
