package main

// Deterministic, insertion-ordered map used for every Go map of the target
// program.  Keys must be concrete.

import (
	"fmt"
	"go/types"
)

type omap struct {
	kt    types.Type
	idx   map[interface{}]int
	keys  []value
	vals  []value
	live  []bool
	n     int
	plain bool // keys are directly comparable Go values
}

func makeMap(kt types.Type) value {
	return &omap{kt: kt, idx: map[interface{}]int{}, plain: usesBuiltinMap(kt)}
}

func (m *omap) canon(k value) interface{} {
	if m.plain {
		return k
	}
	return canonKey(k)
}

// canonKey renders aggregate keys (structs, arrays, interfaces) canonically.
func canonKey(k value) interface{} {
	switch k := k.(type) {
	case structure:
		s := "{"
		for _, e := range k {
			s += fmt.Sprintf("%v|", canonKey(e))
		}
		return s + "}"
	case array:
		s := "["
		for _, e := range k {
			s += fmt.Sprintf("%v|", canonKey(e))
		}
		return s + "]"
	case iface:
		if k.t == nil {
			return "<nil iface>"
		}
		return fmt.Sprintf("(%s)%v", k.t, canonKey(k.v))
	case symInt, symBool, symF32, symF64:
		panic(engineError{"symbolic value inside aggregate map key"})
	}
	return fmt.Sprintf("%T:%v", k, k)
}

func (m *omap) lookup(k value) (value, bool) {
	if m == nil {
		return nil, false
	}
	if j, ok := m.idx[m.canon(k)]; ok {
		return m.vals[j], true
	}
	return nil, false
}

func (m *omap) insert(k, v value) {
	c := m.canon(k)
	if j, ok := m.idx[c]; ok {
		m.vals[j] = v
		return
	}
	m.idx[c] = len(m.keys)
	m.keys = append(m.keys, k)
	m.vals = append(m.vals, v)
	m.live = append(m.live, true)
	m.n++
}

func (m *omap) delete(k value) {
	if m == nil {
		return
	}
	c := m.canon(k)
	if j, ok := m.idx[c]; ok {
		delete(m.idx, c)
		m.live[j] = false
		m.vals[j] = nil
		m.n--
	}
}

func (m *omap) len() int {
	if m == nil {
		return 0
	}
	return m.n
}

// omapIter iterates over the entries present when the range started; entries
// deleted meanwhile are skipped, entries added meanwhile are not visited (one
// of the behaviours Go permits).
type omapIter struct {
	m     *omap
	order []int
	pos   int
}

func newOmapIter(m *omap, rev bool) *omapIter {
	it := &omapIter{m: m}
	if m == nil {
		return it
	}
	for j := range m.keys {
		if m.live[j] {
			it.order = append(it.order, j)
		}
	}
	if rev {
		for a, b := 0, len(it.order)-1; a < b; a, b = a+1, b-1 {
			it.order[a], it.order[b] = it.order[b], it.order[a]
		}
	}
	return it
}

func (it *omapIter) next() tuple {
	for it.pos < len(it.order) {
		j := it.order[it.pos]
		it.pos++
		if it.m.live[j] {
			return tuple{true, it.m.keys[j], it.m.vals[j]}
		}
	}
	return tuple{false, nil, nil}
}
