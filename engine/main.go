package main

import (
	"encoding/json"
	"flag"
	"fmt"
	"os"
	"path/filepath"
	"runtime/pprof"
	"sort"
	"strings"
)

func main() {
	if len(os.Args) < 2 {
		fmt.Fprintln(os.Stderr, "usage: gosym run|check ...")
		os.Exit(2)
	}
	switch os.Args[1] {
	case "run":
		cmdRun(os.Args[2:])
	case "check":
		cmdCheck(os.Args[2:])
	default:
		fmt.Fprintln(os.Stderr, "unknown command", os.Args[1])
		os.Exit(2)
	}
}

// harnessOverlay maps every harness/runtime source in dir to a virtual file in
// the repo, and the frozen reference copy (dir/../ref/ice) to the virtual
// package directory <repo>/zz_vp_ref.
func harnessOverlay(repo, dir string) (map[string]string, error) {
	ents, err := os.ReadDir(dir)
	if err != nil {
		return nil, err
	}
	ov := map[string]string{}
	for _, e := range ents {
		n := e.Name()
		if strings.HasSuffix(n, ".go") && strings.HasPrefix(n, "zz_vp_") {
			ov[repo+"/"+n] = dir + "/" + n
		}
	}
	refDir := dir + "/../ref/ice"
	if rents, err := os.ReadDir(refDir); err == nil {
		for _, e := range rents {
			if strings.HasSuffix(e.Name(), ".go") {
				ov[repo+"/zz_vp_ref/"+e.Name()] = refDir + "/" + e.Name()
			}
		}
	}
	return ov, nil
}

func cmdRun(args []string) {
	fs := flag.NewFlagSet("run", flag.ExitOnError)
	repo := fs.String("repo", "/repo", "repository")
	hdir := fs.String("harness-dir", filepath.Join(verifDir, "harness"), "directory with zz_vp_*.go")
	modfile := fs.String("modfile", "auto", "go.mod with model replacements (auto: generated from the repo's go.mod)")
	names := fs.String("h", "", "comma separated harness function names")
	workers := fs.Int("workers", 16, "workers")
	solver := fs.String("solver", "z3", "z3|z3-new|cvc5|cvc5-int")
	timeout := fs.Int("timeout-ms", 10000, "per query timeout")
	verbose := fs.Bool("v", false, "verbose")
	trace := fs.Bool("trace", false, "trace instructions")
	maxPaths := fs.Int("max-paths", 2000000, "path limit")
	profile := fs.Bool("profile", false, "print solver query sites")
	dump := fs.Bool("dump-paths", false, "print the decision trace of every path")
	cpuprof := fs.String("cpuprofile", "", "write cpu profile")
	tierFlag := fs.Int("tier", 0, "0 quick, 1 thorough")
	fs.Parse(args)
	if *cpuprof != "" {
		f, _ := os.Create(*cpuprof)
		pprof.StartCPUProfile(f)
		defer pprof.StopCPUProfile()
	}
	ov, err := harnessOverlay(*repo, *hdir)
	if err != nil {
		fmt.Fprintln(os.Stderr, err)
		os.Exit(2)
	}
	if *modfile == "auto" {
		mf, err := writeEngineMod(*repo, filepath.Join(verifDir, "models"), filepath.Join(verifDir, "work"))
		if err != nil {
			fmt.Fprintln(os.Stderr, "engine.mod:", err)
			os.Exit(2)
		}
		*modfile = mf
	}
	p, err := LoadProgram(LoadConfig{RepoDir: *repo, Overlay: ov, ModFile: *modfile, Tags: "verif"})
	if err != nil {
		fmt.Fprintln(os.Stderr, "load:", err)
		os.Exit(2)
	}
	fmt.Printf("loaded in %.1fs\n", p.LoadS)
	for _, h := range strings.Split(*names, ",") {
		ex := NewExplorer(p, h)
		ex.workers = *workers
		ex.solverName = *solver
		ex.timeoutMs = *timeout
		ex.verbose = *verbose
		ex.maxPaths = *maxPaths
		if *trace {
			ex.trace = true
			ex.workers = 1
		}
		ex.profile = *profile
		ex.dump = *dump
		ex.tier = *tierFlag
		st := ex.Run()
		if *profile {
			type kv struct {
				k string
				v int
			}
			var l []kv
			for k, v := range ex.sites {
				l = append(l, kv{k, v})
			}
			sort.Slice(l, func(a, b int) bool { return l[a].v > l[b].v })
			for n, e := range l {
				if n < 40 {
					fmt.Fprintf(os.Stderr, "SITE %7d %s\n", e.v, e.k)
				}
			}
		}
		b, _ := json.MarshalIndent(map[string]interface{}{
			"harness": h, "paths": st.Paths, "outcomes": st.Outcomes, "decisions": st.Decisions, "steps": st.Steps,
			"queries": st.Queries, "inconclusive": st.Inconclusive, "reached": st.Reached, "candidates": st.Candidates,
			"engine_errors": st.EngineErrors, "bound_notes": st.BoundNotes, "wall_s": st.WallS, "samples": st.Samples,
			"inputs": st.Inputs,
		}, "", " ")
		fmt.Println(string(b))
	}
}

