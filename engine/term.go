package main

// Terms: hash-consed SMT bit-vector / Bool expression DAG with constant folding.
// A TermBank lives for one path execution.

import (
	"fmt"
	"math/bits"
	"strings"
)

type Op uint8

const (
	OpConst Op = iota
	OpVar
	OpAdd
	OpSub
	OpMul
	OpUDiv
	OpURem
	OpSDiv
	OpSRem
	OpAnd
	OpOr
	OpXor
	OpShl
	OpLShr
	OpAShr
	OpNot // bvnot
	OpNeg
	OpExtract // a=hi, b=lo
	OpZExt    // a = extra bits
	OpSExt
	OpConcat
	OpIte
	// Bool-valued
	OpEq
	OpUlt
	OpUle
	OpSlt
	OpSle
	OpBNot
	OpBAnd
	OpBOr
	OpBConst
	OpBVar
	OpUF // uninterpreted function application; name in Name
	OpSlice // Args[0]=base, A=lo, B=n, C=shift
)

var opNames = map[Op]string{
	OpAdd: "bvadd", OpSub: "bvsub", OpMul: "bvmul", OpUDiv: "bvudiv", OpURem: "bvurem",
	OpSDiv: "bvsdiv", OpSRem: "bvsrem", OpAnd: "bvand", OpOr: "bvor", OpXor: "bvxor",
	OpShl: "bvshl", OpLShr: "bvlshr", OpAShr: "bvashr", OpNot: "bvnot", OpNeg: "bvneg",
	OpConcat: "concat", OpIte: "ite", OpEq: "=", OpUlt: "bvult", OpUle: "bvule",
	OpSlt: "bvslt", OpSle: "bvsle", OpBNot: "not", OpBAnd: "and", OpBOr: "or",
}

type Term struct {
	Op   Op
	W    int // bit width; 0 = Bool
	Args []*Term
	A, B uint64 // const value (A) / extract hi,lo / ext amount
	C    uint64 // slice shift
	Name string
	ID   int
	// unsigned interval [Lo,Hi] for bit-vectors with W<=64
	Lo, Hi uint64
	// known bits: K0 bits known zero, K1 bits known one
	K0, K1 uint64
}

func (t *Term) IsConst() bool { return t.Op == OpConst || t.Op == OpBConst }

type TermBank struct {
	tab   map[termKey]*Term
	terms []*Term
	vars  []*Term
	ufs   map[string]string // name -> declaration
}

func NewTermBank() *TermBank {
	return &TermBank{tab: map[termKey]*Term{}, ufs: map[string]string{}}
}

func mask(w int) uint64 {
	if w >= 64 {
		return ^uint64(0)
	}
	return (uint64(1) << uint(w)) - 1
}

type termKey struct {
	op         Op
	w          int
	a, b, c    uint64
	name       string
	n          int
	x0, x1, x2 int
}

func (tb *TermBank) mk(t *Term) *Term {
	k := termKey{op: t.Op, w: t.W, a: t.A, b: t.B, c: t.C, name: t.Name, n: len(t.Args), x0: -1, x1: -1, x2: -1}
	switch len(t.Args) {
	case 0:
	case 1:
		k.x0 = t.Args[0].ID
	case 2:
		k.x0, k.x1 = t.Args[0].ID, t.Args[1].ID
	case 3:
		k.x0, k.x1, k.x2 = t.Args[0].ID, t.Args[1].ID, t.Args[2].ID
	default:
		// rare (uninterpreted functions with many arguments): fold the rest into the name
		k.x0, k.x1, k.x2 = t.Args[0].ID, t.Args[1].ID, t.Args[2].ID
		for _, a := range t.Args[3:] {
			k.name += fmt.Sprintf(":%d", a.ID)
		}
	}
	if x, ok := tb.tab[k]; ok {
		return x
	}
	t.ID = len(tb.terms)
	tb.terms = append(tb.terms, t)
	tb.tab[k] = t
	if t.W > 0 {
		tb.analyse(t)
	}
	return t
}

// analyse computes a sound unsigned interval and known bits for t.
func (tb *TermBank) analyse(t *Term) {
	m := mask(t.W)
	t.Lo, t.Hi, t.K0, t.K1 = 0, m, ^m, 0
	if t.W > 64 {
		t.K0 = 0
		return
	}
	switch t.Op {
	case OpConst:
		t.Lo, t.Hi = t.A, t.A
		t.K1 = t.A
		t.K0 = ^t.A
		return
	case OpAnd:
		a, b := t.Args[0], t.Args[1]
		t.K0 = a.K0 | b.K0
		t.K1 = a.K1 & b.K1
		t.Hi = minU(a.Hi, b.Hi)
	case OpOr:
		a, b := t.Args[0], t.Args[1]
		t.K0 = a.K0 & b.K0
		t.K1 = a.K1 | b.K1
		t.Lo = maxU(a.Lo, b.Lo)
	case OpXor:
		a, b := t.Args[0], t.Args[1]
		t.K0 = (a.K0 & b.K0) | (a.K1 & b.K1)
		t.K1 = (a.K0 & b.K1) | (a.K1 & b.K0)
	case OpNot:
		a := t.Args[0]
		t.K0 = a.K1 | ^m
		t.K1 = a.K0 & m
	case OpShl:
		if t.Args[1].Op == OpConst {
			s := t.Args[1].A
			a := t.Args[0]
			if s < 64 {
				t.K1 = (a.K1 << s) & m
				t.K0 = (a.K0 << s) | ((uint64(1) << s) - 1) | ^m
				if a.Hi <= m>>s {
					t.Lo, t.Hi = a.Lo<<s, a.Hi<<s
				}
			}
		}
	case OpLShr:
		if t.Args[1].Op == OpConst {
			s := t.Args[1].A
			a := t.Args[0]
			if s < 64 {
				t.K1 = (a.K1 & m) >> s
				t.K0 = ((a.K0 & m) >> s) | ^(m >> s)
				t.Lo, t.Hi = a.Lo>>s, a.Hi>>s
			}
		} else {
			t.Hi = t.Args[0].Hi
		}
	case OpExtract:
		a := t.Args[0]
		if a.W <= 64 {
			lo := t.B
			t.K1 = (a.K1 >> lo) & m
			t.K0 = (a.K0 >> lo) | ^m
			if lo == 0 && a.Hi <= m {
				t.Lo, t.Hi = a.Lo, a.Hi
			}
		}
	case OpSlice:
		a := t.Args[0]
		lo, n, sh := uint(t.A), int(t.B), uint(t.C)
		field := mask(n) << sh
		t.K1 = ((a.K1 >> lo) << sh) & field
		t.K0 = (((a.K0 | ^mask(a.W)) >> lo) << sh) | ^field
		hi := a.Hi >> lo
		if hi > mask(n) {
			hi = mask(n)
		}
		t.Hi = hi << sh
		if lo == 0 && a.Hi <= mask(n) {
			t.Lo = a.Lo << sh
		}
	case OpZExt:
		a := t.Args[0]
		t.K1 = a.K1
		t.K0 = a.K0 | ^mask(a.W)
		t.Lo, t.Hi = a.Lo, a.Hi
	case OpAdd:
		a, b := t.Args[0], t.Args[1]
		hi, c := bits.Add64(a.Hi, b.Hi, 0)
		if c == 0 && hi <= m {
			t.Lo, t.Hi = a.Lo+b.Lo, hi
		}
	case OpSub:
		a, b := t.Args[0], t.Args[1]
		if a.Lo >= b.Hi {
			t.Lo, t.Hi = a.Lo-b.Hi, a.Hi-b.Lo
		}
	case OpUDiv:
		a, b := t.Args[0], t.Args[1]
		if b.Lo > 0 {
			t.Lo, t.Hi = a.Lo/b.Hi, a.Hi/b.Lo
		}
	case OpURem:
		a, b := t.Args[0], t.Args[1]
		if b.Lo > 0 {
			t.Hi = minU(a.Hi, b.Hi-1)
		}
	case OpIte:
		a, b := t.Args[1], t.Args[2]
		t.Lo, t.Hi = minU(a.Lo, b.Lo), maxU(a.Hi, b.Hi)
		t.K0 = a.K0 & b.K0
		t.K1 = a.K1 & b.K1
	}
	// reconcile interval and known bits
	t.K0 |= ^m
	if lo := t.K1 & m; lo > t.Lo {
		t.Lo = lo
	}
	if hi := ^t.K0 & m; hi < t.Hi {
		t.Hi = hi
	}
	// leading zeros from Hi
	if t.Hi < m {
		lz := bits.LeadingZeros64(t.Hi)
		if lz > 0 {
			t.K0 |= ^(^uint64(0) >> uint(lz))
		}
	}
	if t.Lo > t.Hi { // inconsistent analysis can only arise on infeasible paths; fall back
		t.Lo, t.Hi = 0, m
	}
}

func minU(a, b uint64) uint64 {
	if a < b {
		return a
	}
	return b
}
func maxU(a, b uint64) uint64 {
	if a > b {
		return a
	}
	return b
}

func (tb *TermBank) Const(w int, v uint64) *Term {
	return tb.mk(&Term{Op: OpConst, W: w, A: v & mask(w)})
}

func (tb *TermBank) Bool(b bool) *Term {
	if b {
		return tb.mk(&Term{Op: OpBConst, A: 1})
	}
	return tb.mk(&Term{Op: OpBConst, A: 0})
}

func (tb *TermBank) Var(name string, w int) *Term {
	op := OpVar
	if w == 0 {
		op = OpBVar
	}
	k := len(tb.terms)
	t := tb.mk(&Term{Op: op, W: w, Name: name})
	if t.ID == k {
		tb.vars = append(tb.vars, t)
	}
	return t
}

func sext64(v uint64, w int) int64 {
	if w >= 64 {
		return int64(v)
	}
	sh := uint(64 - w)
	return int64(v<<sh) >> sh
}

// Bin builds a bit-vector binary operation with folding.
func (tb *TermBank) Bin(op Op, a, b *Term) *Term {
	w := a.W
	if a.W != b.W {
		panic(engineError{fmt.Sprintf("term width mismatch %d vs %d for %v", a.W, b.W, opNames[op])})
	}
	if a.Op == OpConst && b.Op == OpConst && w <= 64 {
		x, y, m := a.A, b.A, mask(w)
		switch op {
		case OpAdd:
			return tb.Const(w, x+y)
		case OpSub:
			return tb.Const(w, x-y)
		case OpMul:
			return tb.Const(w, x*y)
		case OpUDiv:
			if y == 0 {
				return tb.Const(w, m)
			}
			return tb.Const(w, x/y)
		case OpURem:
			if y == 0 {
				return tb.Const(w, x)
			}
			return tb.Const(w, x%y)
		case OpSDiv:
			if y != 0 {
				sx, sy := sext64(x, w), sext64(y, w)
				if !(sy == -1 && sx == sext64(uint64(1)<<uint(w-1), w)) {
					return tb.Const(w, uint64(sx/sy))
				}
			}
		case OpSRem:
			if y != 0 {
				sx, sy := sext64(x, w), sext64(y, w)
				if sy != -1 {
					return tb.Const(w, uint64(sx%sy))
				}
				return tb.Const(w, 0)
			}
		case OpAnd:
			return tb.Const(w, x&y)
		case OpOr:
			return tb.Const(w, x|y)
		case OpXor:
			return tb.Const(w, x^y)
		case OpShl:
			if y >= uint64(w) {
				return tb.Const(w, 0)
			}
			return tb.Const(w, x<<y)
		case OpLShr:
			if y >= uint64(w) {
				return tb.Const(w, 0)
			}
			return tb.Const(w, x>>y)
		case OpAShr:
			sx := sext64(x, w)
			if y >= uint64(w) {
				y = uint64(w - 1)
			}
			return tb.Const(w, uint64(sx>>y))
		}
	}
	// identities
	switch op {
	case OpAdd, OpOr, OpXor:
		if a.Op == OpConst && a.A == 0 {
			return b
		}
		if b.Op == OpConst && b.A == 0 {
			return a
		}
		if op == OpOr && w <= 64 {
			// x | c where all bits of c already known one
			if b.Op == OpConst && b.A&^a.K1 == 0 {
				return a
			}
			if a.Op == OpConst && a.A&^b.K1 == 0 {
				return b
			}
		}
	case OpSub, OpShl, OpLShr, OpAShr:
		if b.Op == OpConst && b.A == 0 {
			return a
		}
		if op == OpSub && a == b {
			return tb.Const(w, 0)
		}
		if (op == OpShl || op == OpLShr) && b.Op == OpConst && b.A >= uint64(w) {
			return tb.Const(w, 0)
		}
	case OpAnd:
		if a.Op == OpConst && a.A == 0 || b.Op == OpConst && b.A == 0 {
			return tb.Const(w, 0)
		}
		if w <= 64 {
			m := mask(w)
			// x & c where every possibly-one bit of x is inside c
			if b.Op == OpConst && (^a.K0&m)&^b.A == 0 {
				return a
			}
			if a.Op == OpConst && (^b.K0&m)&^a.A == 0 {
				return b
			}
			// result known entirely
			k0 := a.K0 | b.K0
			k1 := a.K1 & b.K1
			if (k0|k1)&m == m {
				return tb.Const(w, k1)
			}
		}
		if a == b {
			return a
		}
	case OpMul:
		if a.Op == OpConst && a.A == 1 {
			return b
		}
		if b.Op == OpConst && b.A == 1 {
			return a
		}
		if a.Op == OpConst && a.A == 0 || b.Op == OpConst && b.A == 0 {
			return tb.Const(w, 0)
		}
	case OpUDiv:
		if b.Op == OpConst && b.A == 1 {
			return a
		}
	}
	if w <= 64 {
		switch op {
		case OpShl:
			if b.Op == OpConst {
				if b.A >= uint64(w) {
					return tb.Const(w, 0)
				}
				return tb.Slice(a, 0, w-int(b.A), int(b.A), w)
			}
		case OpLShr:
			if b.Op == OpConst {
				if b.A >= uint64(w) {
					return tb.Const(w, 0)
				}
				return tb.Slice(a, int(b.A), w-int(b.A), 0, w)
			}
		case OpAnd:
			for k := 0; k < 2; k++ {
				x, m := a, b
				if k == 1 {
					x, m = b, a
				}
				if m.Op != OpConst || x.Op == OpConst {
					continue
				}
				if j, n, ok := contiguousMask(m.A); ok {
					return tb.Slice(x, j, n, j, w)
				}
				if x.Op == OpOr {
					// (p | q) & m  =  (p & m) | (q & m)
					return tb.Bin(OpOr, tb.Bin(OpAnd, x.Args[0], m), tb.Bin(OpAnd, x.Args[1], m))
				}
			}
		case OpOr:
			if a.Op != OpConst && b.Op != OpConst {
				if m := tb.mergeSlices(a, b); m != nil {
					return m
				}
				// (p | q) | r with q,r mergeable (varint reassembly accumulates left to right)
				if a.Op == OpOr {
					if m := tb.mergeSlices(a.Args[1], b); m != nil {
						return tb.Bin(OpOr, a.Args[0], m)
					}
					if m := tb.mergeSlices(a.Args[0], b); m != nil {
						return tb.Bin(OpOr, m, a.Args[1])
					}
				}
			}
		}
		switch op {
		case OpLShr:
			// ((x << c) | low) >> c  ==  x   when x loses no bits and low < 2^c
			if b.Op == OpConst && a.Op == OpOr {
				c := b.A
				for k := 0; k < 2; k++ {
					sh, low := a.Args[k], a.Args[1-k]
					if sh.Op == OpShl && sh.Args[1].Op == OpConst && sh.Args[1].A == c && c < 64 &&
						low.Hi < uint64(1)<<c && sh.Args[0].Hi <= mask(w)>>c {
						return sh.Args[0]
					}
				}
			}
			if b.Op == OpConst && a.Op == OpShl && a.Args[1].Op == OpConst && a.Args[1].A == b.A && b.A < 64 &&
				a.Args[0].Hi <= mask(w)>>b.A {
				return a.Args[0]
			}
		case OpAnd:
			// ((x << c) | low) & m  ==  low   when m < 2^c and low <= m has only bits inside m
			for k := 0; k < 2; k++ {
				o, m := a, b
				if k == 1 {
					o, m = b, a
				}
				if m.Op == OpConst && o.Op == OpOr {
					for q := 0; q < 2; q++ {
						sh, low := o.Args[q], o.Args[1-q]
						if sh.Op == OpShl && sh.Args[1].Op == OpConst && sh.Args[1].A < 64 &&
							m.A < uint64(1)<<sh.Args[1].A && (^low.K0&mask(w))&^m.A == 0 {
							return low
						}
					}
				}
			}
		}
	}
	// canonical order for commutative ops: constant last
	switch op {
	case OpAdd, OpMul, OpAnd, OpOr, OpXor:
		if a.Op == OpConst && b.Op != OpConst {
			a, b = b, a
		}
	}
	t := tb.mk(&Term{Op: op, W: w, Args: []*Term{a, b}})
	if w <= 64 && t.Lo == t.Hi {
		return tb.Const(w, t.Lo)
	}
	return t
}

func (tb *TermBank) Un(op Op, a *Term) *Term {
	w := a.W
	if a.Op == OpConst && w <= 64 {
		switch op {
		case OpNot:
			return tb.Const(w, ^a.A)
		case OpNeg:
			return tb.Const(w, -a.A)
		}
	}
	if op == OpNot && a.Op == OpNot {
		return a.Args[0]
	}
	return tb.mk(&Term{Op: op, W: w, Args: []*Term{a}})
}

func (tb *TermBank) Extract(a *Term, hi, lo int) *Term {
	w := hi - lo + 1
	if lo == 0 && w == a.W {
		return a
	}
	if a.W <= 64 {
		return tb.Slice(a, lo, w, 0, w)
	}
	if a.Op == OpConcat {
		lw := a.Args[1].W
		if hi < lw {
			return tb.Extract(a.Args[1], hi, lo)
		}
		if lo >= lw {
			return tb.Extract(a.Args[0], hi-lw, lo-lw)
		}
	}
	return tb.mk(&Term{Op: OpExtract, W: w, Args: []*Term{a}, A: uint64(hi), B: uint64(lo)})
}

// ZExt zero-extends a to width w.
func (tb *TermBank) ZExt(a *Term, w int) *Term {
	if w == a.W {
		return a
	}
	if w < a.W {
		return tb.Extract(a, w-1, 0)
	}
	if w <= 64 {
		return tb.Slice(a, 0, a.W, 0, w)
	}
	if a.Op == OpConst {
		return tb.Const(w, a.A)
	}
	return tb.mk(&Term{Op: OpZExt, W: w, Args: []*Term{a}, A: uint64(w - a.W)})
}

func (tb *TermBank) SExt(a *Term, w int) *Term {
	if w == a.W {
		return a
	}
	if w < a.W {
		return tb.Extract(a, w-1, 0)
	}
	if a.Op == OpConst {
		return tb.Const(w, uint64(sext64(a.A, a.W)))
	}
	if a.W <= 64 && a.K0&(uint64(1)<<uint(a.W-1)) != 0 {
		return tb.ZExt(a, w) // sign bit known zero
	}
	return tb.mk(&Term{Op: OpSExt, W: w, Args: []*Term{a}, A: uint64(w - a.W)})
}

func (tb *TermBank) Concat(hi, lo *Term) *Term {
	if hi.Op == OpConst && lo.Op == OpConst && hi.W+lo.W <= 64 {
		return tb.Const(hi.W+lo.W, hi.A<<uint(lo.W)|lo.A)
	}
	return tb.mk(&Term{Op: OpConcat, W: hi.W + lo.W, Args: []*Term{hi, lo}})
}

func (tb *TermBank) Ite(c, a, b *Term) *Term {
	if c.Op == OpBConst {
		if c.A != 0 {
			return a
		}
		return b
	}
	if a == b {
		return a
	}
	if a.W == 0 {
		// Bool ite
		return tb.BOr(tb.BAnd(c, a), tb.BAnd(tb.BNot(c), b))
	}
	return tb.mk(&Term{Op: OpIte, W: a.W, Args: []*Term{c, a, b}})
}

// Cmp builds a Bool comparison.
func (tb *TermBank) Cmp(op Op, a, b *Term) *Term {
	if a.W != b.W {
		panic(engineError{fmt.Sprintf("cmp width mismatch %d vs %d", a.W, b.W)})
	}
	w := a.W
	if w == 0 {
		// Bool equality
		if op != OpEq {
			panic(engineError{"bool ordering comparison"})
		}
		if a.Op == OpBConst {
			if a.A != 0 {
				return b
			}
			return tb.BNot(b)
		}
		if b.Op == OpBConst {
			if b.A != 0 {
				return a
			}
			return tb.BNot(a)
		}
		if a == b {
			return tb.Bool(true)
		}
		return tb.mk(&Term{Op: OpEq, Args: []*Term{a, b}})
	}
	if a.Op == OpConst && b.Op == OpConst && w <= 64 {
		switch op {
		case OpEq:
			return tb.Bool(a.A == b.A)
		case OpUlt:
			return tb.Bool(a.A < b.A)
		case OpUle:
			return tb.Bool(a.A <= b.A)
		case OpSlt:
			return tb.Bool(sext64(a.A, w) < sext64(b.A, w))
		case OpSle:
			return tb.Bool(sext64(a.A, w) <= sext64(b.A, w))
		}
	}
	if a == b {
		switch op {
		case OpEq, OpUle, OpSle:
			return tb.Bool(true)
		default:
			return tb.Bool(false)
		}
	}
	if w <= 64 {
		switch op {
		case OpEq:
			if a.Hi < b.Lo || b.Hi < a.Lo {
				return tb.Bool(false)
			}
			if (a.K1&b.K0)&mask(w) != 0 || (a.K0&b.K1)&mask(w) != 0 {
				return tb.Bool(false)
			}
		case OpUlt:
			if a.Hi < b.Lo {
				return tb.Bool(true)
			}
			if a.Lo >= b.Hi {
				return tb.Bool(false)
			}
		case OpUle:
			if a.Hi <= b.Lo {
				return tb.Bool(true)
			}
			if a.Lo > b.Hi {
				return tb.Bool(false)
			}
		case OpSlt, OpSle:
			// if both sign bits known zero, same as unsigned
			sb := uint64(1) << uint(w-1)
			if a.K0&sb != 0 && b.K0&sb != 0 {
				if op == OpSlt {
					return tb.Cmp(OpUlt, a, b)
				}
				return tb.Cmp(OpUle, a, b)
			}
		}
	}
	if op == OpEq && a.Op == OpConst {
		a, b = b, a
	}
	return tb.mk(&Term{Op: op, Args: []*Term{a, b}})
}

func (tb *TermBank) BNot(a *Term) *Term {
	if a.Op == OpBConst {
		return tb.Bool(a.A == 0)
	}
	if a.Op == OpBNot {
		return a.Args[0]
	}
	return tb.mk(&Term{Op: OpBNot, Args: []*Term{a}})
}

func (tb *TermBank) BAnd(a, b *Term) *Term {
	if a.Op == OpBConst {
		if a.A != 0 {
			return b
		}
		return a
	}
	if b.Op == OpBConst {
		if b.A != 0 {
			return a
		}
		return b
	}
	if a == b {
		return a
	}
	return tb.mk(&Term{Op: OpBAnd, Args: []*Term{a, b}})
}

func (tb *TermBank) BOr(a, b *Term) *Term {
	if a.Op == OpBConst {
		if a.A != 0 {
			return a
		}
		return b
	}
	if b.Op == OpBConst {
		if b.A != 0 {
			return b
		}
		return a
	}
	if a == b {
		return a
	}
	return tb.mk(&Term{Op: OpBOr, Args: []*Term{a, b}})
}

// UF applies an uninterpreted function (declared on first use).
func (tb *TermBank) UF(name string, w int, args ...*Term) *Term {
	if _, ok := tb.ufs[name]; !ok {
		var sb strings.Builder
		fmt.Fprintf(&sb, "(declare-fun %s (", name)
		for _, a := range args {
			sb.WriteString(sortOf(a.W))
			sb.WriteString(" ")
		}
		fmt.Fprintf(&sb, ") %s)", sortOf(w))
		tb.ufs[name] = sb.String()
	}
	return tb.mk(&Term{Op: OpUF, W: w, Name: name, Args: append([]*Term(nil), args...)})
}

func sortOf(w int) string {
	if w == 0 {
		return "Bool"
	}
	return fmt.Sprintf("(_ BitVec %d)", w)
}

func bvLit(w int, v uint64) string {
	if w%4 == 0 {
		return fmt.Sprintf("#x%0*x", w/4, v&mask(w))
	}
	return fmt.Sprintf("#b%0*b", w, v&mask(w))
}

func (t *Term) ref() string {
	switch t.Op {
	case OpConst:
		return bvLit(t.W, t.A)
	case OpBConst:
		if t.A != 0 {
			return "true"
		}
		return "false"
	case OpVar, OpBVar:
		return "|" + t.Name + "|"
	}
	return fmt.Sprintf("t%d", t.ID)
}

// body renders the defining expression of a non-leaf term using refs for args.
func (t *Term) body() string {
	var sb strings.Builder
	switch t.Op {
	case OpExtract:
		fmt.Fprintf(&sb, "((_ extract %d %d) %s)", t.A, t.B, t.Args[0].ref())
	case OpSlice:
		sb.WriteString(sliceSMT(t, t.Args[0].ref()))
	case OpZExt:
		fmt.Fprintf(&sb, "((_ zero_extend %d) %s)", t.A, t.Args[0].ref())
	case OpSExt:
		fmt.Fprintf(&sb, "((_ sign_extend %d) %s)", t.A, t.Args[0].ref())
	case OpUF:
		fmt.Fprintf(&sb, "(%s", t.Name)
		for _, a := range t.Args {
			sb.WriteString(" ")
			sb.WriteString(a.ref())
		}
		sb.WriteString(")")
	default:
		fmt.Fprintf(&sb, "(%s", opNames[t.Op])
		for _, a := range t.Args {
			sb.WriteString(" ")
			sb.WriteString(a.ref())
		}
		sb.WriteString(")")
	}
	return sb.String()
}

// String renders a term fully (for debugging / evidence).
func (t *Term) String() string {
	switch t.Op {
	case OpConst, OpBConst, OpVar, OpBVar:
		return t.ref()
	case OpExtract:
		return fmt.Sprintf("((_ extract %d %d) %s)", t.A, t.B, t.Args[0])
	case OpSlice:
		return sliceSMT(t, t.Args[0].String())
	case OpZExt:
		return fmt.Sprintf("((_ zero_extend %d) %s)", t.A, t.Args[0])
	case OpSExt:
		return fmt.Sprintf("((_ sign_extend %d) %s)", t.A, t.Args[0])
	}
	var sb strings.Builder
	name := opNames[t.Op]
	if t.Op == OpUF {
		name = t.Name
	}
	sb.WriteString("(" + name)
	for _, a := range t.Args {
		sb.WriteString(" ")
		sb.WriteString(a.String())
	}
	sb.WriteString(")")
	return sb.String()
}

// sliceSMT renders ((base >> lo) & mask(n)) << shift in W bits.
func sliceSMT(t *Term, base string) string {
	lo, n, sh := int(t.A), int(t.B), int(t.C)
	e := fmt.Sprintf("((_ extract %d %d) %s)", lo+n-1, lo, base)
	if t.W > n {
		e = fmt.Sprintf("((_ zero_extend %d) %s)", t.W-n, e)
	}
	if sh > 0 {
		e = fmt.Sprintf("(bvshl %s %s)", e, bvLit(t.W, uint64(sh)))
	}
	return e
}
