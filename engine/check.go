package main

// `gosym check`: decide one property: explore its harnesses symbolically,
// replay candidates and sampled paths natively, classify, write evidence.

import (
	"bufio"
	"bytes"
	"crypto/sha1"
	"encoding/json"
	"flag"
	"fmt"
	"os"
	"os/exec"
	"path/filepath"
	"sort"
	"strconv"
	"strings"
	"time"
)

type HarnessSpec struct {
	Name       string   `json:"name"`
	Tier       string   `json:"tier"` // quick | thorough | both
	Reach      []string `json:"reach"`
	Solver     string   `json:"solver,omitempty"`
	TimeoutMs  int      `json:"timeout_ms,omitempty"`
	StepBudget int64    `json:"step_budget,omitempty"`
	MaxPaths   int      `json:"max_paths,omitempty"`
	MaxSplit   int      `json:"max_split,omitempty"`
	MaxWallS   int      `json:"max_wall_s,omitempty"`
	SelfCheck  bool     `json:"selfcheck,omitempty"` // concrete engine-vs-native validation harness
	Anchors    []string `json:"anchors,omitempty"`   // functions that must be executed
	What       string   `json:"what,omitempty"`
}

type PropSpec struct {
	ID          string        `json:"id"`
	Level       string        `json:"level"`
	Harnesses   []HarnessSpec `json:"harnesses"`
	Assumptions []string      `json:"assumptions"`
}

type KnownFinding struct {
	Property string   `json:"property"`
	Status   string   `json:"status"` // open | fixed
	Harness  string   `json:"harness,omitempty"`
	Kind     string   `json:"kind"`
	Label    string   `json:"label"`
	NotesAll []string `json:"notes_all,omitempty"`
	What     string   `json:"what"`
	Commit   string   `json:"commit,omitempty"`
}

type replayVec struct {
	Harness string            `json:"harness"`
	Values  map[string]uint64 `json:"values"`
	Choices []uint64          `json:"choices"`
	Tier    int               `json:"tier"`
	Kind    string            `json:"kind,omitempty"`
	Label   string            `json:"label,omitempty"`
	Msg     string            `json:"msg,omitempty"`
	Notes   []string          `json:"notes,omitempty"`
	Prop    string            `json:"property,omitempty"`
}

type nativeResult struct {
	Outcome string   `json:"outcome"`
	Label   string   `json:"label"`
	Msg     string   `json:"msg"`
	Reached []string `json:"reached"`
	Stack   string   `json:"stack"`
}

// verifDir is the root of the verification tree: the working directory when it
// looks like one (so that a snapshot under another path uses its own harnesses,
// models and evidence), else /verif.
var verifDir = func() string {
	if wd, err := os.Getwd(); err == nil {
		if _, err := os.Stat(filepath.Join(wd, "harness", "props.json")); err == nil {
			return wd
		}
	}
	return "/verif"
}()

func writeEngineMod(repo, models, work string) (string, error) {
	b, err := os.ReadFile(filepath.Join(repo, "go.mod"))
	if err != nil {
		return "", err
	}
	s := string(b) + "\n" +
		"replace github.com/RoaringBitmap/roaring => " + models + "/roaring\n\n" +
		"replace github.com/blevesearch/vellum => " + models + "/vellum\n\n" +
		"replace github.com/klauspost/compress => " + models + "/compress\n"
	os.MkdirAll(work, 0o755)
	mod := filepath.Join(work, "engine.mod")
	if err := os.WriteFile(mod, []byte(s), 0o644); err != nil {
		return "", err
	}
	sum, err := os.ReadFile(filepath.Join(repo, "go.sum"))
	if err == nil {
		os.WriteFile(filepath.Join(work, "engine.sum"), sum, 0o644)
	}
	return mod, nil
}

// nativeReplay runs the given replay vectors against the natively compiled
// real code (one `go test` process) and returns one result per path.
func nativeReplay(repo, hdir, work string, paths []string, race bool) (map[string]nativeResult, string, error) {
	res := map[string]nativeResult{}
	if len(paths) == 0 {
		return res, "", nil
	}
	ov := map[string]map[string]string{"Replace": {}}
	ents, err := os.ReadDir(hdir)
	if err != nil {
		return nil, "", err
	}
	for _, e := range ents {
		if strings.HasPrefix(e.Name(), "zz_vp_") && strings.HasSuffix(e.Name(), ".go") {
			ov["Replace"][filepath.Join(repo, e.Name())] = filepath.Join(hdir, e.Name())
		}
	}
	if rents, err := os.ReadDir(filepath.Join(hdir, "..", "ref", "ice")); err == nil {
		for _, e := range rents {
			if strings.HasSuffix(e.Name(), ".go") {
				ov["Replace"][filepath.Join(repo, "zz_vp_ref", e.Name())] = filepath.Join(hdir, "..", "ref", "ice", e.Name())
			}
		}
	}
	os.MkdirAll(work, 0o755)
	ovPath := filepath.Join(work, fmt.Sprintf("overlay-%d.json", os.Getpid()))
	b, _ := json.Marshal(ov)
	if err := os.WriteFile(ovPath, b, 0o644); err != nil {
		return nil, "", err
	}
	defer os.Remove(ovPath)
	listPath := filepath.Join(work, fmt.Sprintf("replaylist-%d.txt", os.Getpid()))
	if err := os.WriteFile(listPath, []byte(strings.Join(paths, "\n")+"\n"), 0o644); err != nil {
		return nil, "", err
	}
	defer os.Remove(listPath)
	args := []string{"test", "-tags", "verif", "-vet=off", "-count=1", "-v", "-timeout", "30m", "-overlay", ovPath, "-run", "^TestVPReplay$"}
	if race {
		args = append(args, "-race")
	}
	args = append(args, ".")
	cmd := exec.Command("go", args...)
	cmd.Dir = repo
	cmd.Env = append(os.Environ(), "VP_REPLAY=@"+listPath, "GOFLAGS=-mod=mod", "GOPROXY=off", "GOSUMDB=off", "GOTOOLCHAIN=local")
	var out bytes.Buffer
	cmd.Stdout = &out
	cmd.Stderr = &out
	runErr := cmd.Run()
	sc := bufio.NewScanner(bytes.NewReader(out.Bytes()))
	sc.Buffer(make([]byte, 1<<20), 1<<26)
	for sc.Scan() {
		line := sc.Text()
		if !strings.HasPrefix(line, "VPRESULT ") {
			continue
		}
		rest := strings.TrimPrefix(line, "VPRESULT ")
		sp := strings.IndexByte(rest, ' ')
		if sp < 0 {
			continue
		}
		var r nativeResult
		if json.Unmarshal([]byte(rest[sp+1:]), &r) == nil {
			res[rest[:sp]] = r
		}
	}
	if len(res) < len(paths) && len(paths) > 1 {
		// the test process died (e.g. "fatal error: out of memory" inside a replay,
		// which recover() cannot catch): run the missing vectors one process each
		for _, pth := range paths {
			if _, ok := res[pth]; ok {
				continue
			}
			one, oneOut, _ := nativeReplay(repo, hdir, work, []string{pth}, race)
			if r, ok := one[pth]; ok {
				res[pth] = r
			} else {
				res[pth] = nativeResult{Outcome: "crash", Msg: "native process died: " + crashLine(oneOut)}
			}
		}
		return res, out.String(), nil
	}
	if len(res) < len(paths) {
		return res, out.String(), fmt.Errorf("native replay produced %d of %d results (go test: %v)", len(res), len(paths), runErr)
	}
	return res, out.String(), nil
}

func crashLine(out string) string {
	for _, l := range strings.Split(out, "\n") {
		if strings.HasPrefix(l, "fatal error:") || strings.HasPrefix(l, "panic:") || strings.Contains(l, "signal ") {
			return l
		}
	}
	if len(out) > 200 {
		return out[len(out)-200:]
	}
	return out
}

func vecHash(v *replayVec) string {
	b, _ := json.Marshal(v)
	h := sha1.Sum(b)
	return fmt.Sprintf("%x", h[:6])
}

func writeVec(dir, prefix string, v *replayVec) (string, error) {
	os.MkdirAll(dir, 0o755)
	p := filepath.Join(dir, prefix+"-"+vecHash(v)+".json")
	b, _ := json.MarshalIndent(v, "", " ")
	return p, os.WriteFile(p, b, 0o644)
}

func containsAll(have, want []string) bool {
	set := map[string]bool{}
	for _, h := range have {
		set[h] = true
	}
	for _, w := range want {
		if !set[w] {
			return false
		}
	}
	return true
}

func cmdCheck(args []string) {
	fs := flag.NewFlagSet("check", flag.ExitOnError)
	prop := fs.String("property", "", "property id")
	tier := fs.String("tier", "quick", "quick|thorough")
	repo := fs.String("repo", "/repo", "repository")
	only := fs.String("only", "", "run only these harnesses (comma separated)")
	verbose := fs.Bool("v", false, "verbose")
	noNative := fs.Bool("no-native", false, "skip native replays (debugging only; forces exit 2)")
	replay := fs.String("replay", "", "replay one vector natively and print the result")
	fs.Parse(args)
	hdir := filepath.Join(verifDir, "harness")
	work := filepath.Join(verifDir, "work")
	if d := os.Getenv("VP_WORK_DIR"); d != "" {
		work = d
	}
	t0 := time.Now()

	if *replay != "" {
		res, out, err := nativeReplay(*repo, hdir, work, []string{absPath(*replay)}, false)
		if err != nil {
			fmt.Println(out)
			fmt.Println("replay failed:", err)
			os.Exit(2)
		}
		for p, r := range res {
			b, _ := json.Marshal(r)
			fmt.Printf("%s: %s\n", p, b)
			if r.Outcome == "assert" || r.Outcome == "panic" || r.Outcome == "hang" {
				os.Exit(1)
			}
		}
		return
	}

	seed := int64(0)
	if s := os.Getenv("VERIF_SEED"); s != "" {
		seed, _ = strconv.ParseInt(s, 10, 64)
	}
	tierN := 0
	if *tier == "thorough" {
		tierN = 1
	}
	var props []PropSpec
	b, err := os.ReadFile(filepath.Join(hdir, "props.json"))
	if err != nil {
		fmt.Println("cannot read props.json:", err)
		os.Exit(2)
	}
	if err := json.Unmarshal(b, &props); err != nil {
		fmt.Println("props.json:", err)
		os.Exit(2)
	}
	var ps *PropSpec
	for k := range props {
		if props[k].ID == *prop {
			ps = &props[k]
		}
	}
	if ps == nil {
		fmt.Println("unknown property", *prop)
		os.Exit(2)
	}
	var known []KnownFinding
	kfPath := filepath.Join(verifDir, "known_findings.json")
	if pth := os.Getenv("VP_KNOWN_FINDINGS"); pth != "" {
		kfPath = pth // self test of the known-finding plumbing
	}
	if kb, err := os.ReadFile(kfPath); err == nil {
		if err := json.Unmarshal(kb, &known); err != nil {
			fmt.Println("known_findings.json:", err)
			os.Exit(2)
		}
	}

	modfile, err := writeEngineMod(*repo, filepath.Join(verifDir, "models"), work)
	if err != nil {
		fmt.Println("engine.mod:", err)
		os.Exit(2)
	}
	ov, err := harnessOverlay(*repo, hdir)
	if err != nil {
		fmt.Println(err)
		os.Exit(2)
	}
	p, err := LoadProgram(LoadConfig{RepoDir: *repo, Overlay: ov, ModFile: modfile, Tags: "verif"})
	if err != nil {
		fmt.Println("HARNESS-BUILD-FAILED: the harnesses do not load against the current tree:", err)
		os.Exit(2)
	}
	fmt.Printf("[%s %s] program loaded from %s in %.1fs (seed %d)\n", ps.ID, *tier, *repo, p.LoadS, seed)

	onlySet := map[string]bool{}
	for _, o := range strings.Split(*only, ",") {
		if o != "" {
			onlySet[o] = true
		}
	}

	type hres struct {
		spec  HarnessSpec
		stats *HarnessStats
	}
	var results []hres
	exitCode := 0
	var engineErrs, boundNotes, vacuous, inconNotes []string
	totPaths, totDec, totIncon := 0, int64(0), 0
	totFbQ, totFbD := 0, 0
	var totQ SolverStats
	funcsAll := map[string]int{}
	var samples []interface{}
	var candVecs []*replayVec
	var sampleVecs []*replayVec
	var selfVecs []*replayVec
	inputsAll := map[string]int{}

	for _, hs := range ps.Harnesses {
		if len(onlySet) > 0 && !onlySet[hs.Name] {
			continue
		}
		if !(hs.Tier == "both" || hs.Tier == "" || hs.Tier == *tier || (hs.Tier == "quick" && false)) {
			continue
		}
		ex := NewExplorer(p, hs.Name)
		ex.tier = tierN
		ex.verbose = *verbose
		if hs.Solver != "" {
			ex.solverName = hs.Solver
		}
		if hs.TimeoutMs > 0 {
			ex.timeoutMs = hs.TimeoutMs
		} else if tierN == 1 {
			ex.timeoutMs = 60000
		}
		if hs.StepBudget > 0 {
			ex.stepBudget = hs.StepBudget
		}
		if hs.MaxPaths > 0 {
			ex.maxPaths = hs.MaxPaths
		}
		if hs.MaxSplit > 0 {
			ex.maxSplit = hs.MaxSplit
		}
		ex.sampleSeed = seed
		ex.maxWall = 10 * time.Minute
		if tierN == 1 {
			ex.maxWall = 40 * time.Minute
		}
		if hs.MaxWallS > 0 {
			ex.maxWall = time.Duration(hs.MaxWallS) * time.Second
		}
		if v, err := strconv.Atoi(os.Getenv("VP_MAXWALL_S")); err == nil && v > 0 {
			ex.maxWall = time.Duration(v) * time.Second // calibration runs
		}
		if v, err := strconv.Atoi(os.Getenv("VP_MAXSAMPLES")); err == nil && v > 0 {
			ex.maxSamples = v // validation sweeps: replay (up to) every completed path natively
		}
		st := ex.Run()
		results = append(results, hres{hs, st})
		fmt.Printf("  %-28s paths=%d %v decisions=%d queries(sat/unsat/unk)=%d/%d/%d solver=%.1fs wall=%.1fs\n",
			hs.Name, st.Paths, st.Outcomes, st.Decisions, st.Queries.Sat, st.Queries.Unsat, st.Queries.Unknown, st.Queries.Seconds, st.WallS)
		totPaths += st.Paths
		totDec += st.Decisions
		totIncon += st.Inconclusive
		totFbQ += st.FallbackQueries
		totFbD += st.FallbackDecided
		totQ.Sat += st.Queries.Sat
		totQ.Unsat += st.Queries.Unsat
		totQ.Unknown += st.Queries.Unknown
		totQ.Seconds += st.Queries.Seconds
		totQ.Errors += st.Queries.Errors
		for f, n := range st.Funcs {
			funcsAll[f] += n
		}
		for k, w := range st.Inputs {
			inputsAll[hs.Name+":"+k] = w
		}
		for _, e := range st.EngineErrors {
			engineErrs = append(engineErrs, hs.Name+": "+e)
		}
		for _, e := range st.BoundNotes {
			boundNotes = append(boundNotes, hs.Name+": "+e)
		}
		for _, e := range st.InconNotes {
			inconNotes = append(inconNotes, hs.Name+": "+e)
		}
		for _, l := range hs.Reach {
			if st.Reached[l] == 0 {
				vacuous = append(vacuous, hs.Name+": label never reached: "+l)
			}
		}
		for _, a := range hs.Anchors {
			hit := false
			for f := range st.Funcs {
				if sf := shortFn(f); sf == a || strings.HasSuffix(sf, "."+a) || strings.HasSuffix(f, a) {
					hit = true
				}
			}
			if !hit {
				vacuous = append(vacuous, hs.Name+": anchored function never executed: "+a)
			}
		}
		for k := range st.Samples {
			samples = append(samples, st.Samples[k])
		}
		for _, c := range st.SampleCands {
			sampleVecs = append(sampleVecs, &replayVec{Harness: c.Harness, Values: c.Values, Choices: c.Choices, Tier: tierN, Kind: "sample", Prop: ps.ID})
		}
		for _, c := range st.Candidates {
			candVecs = append(candVecs, &replayVec{Harness: c.Harness, Values: c.Values, Choices: c.Choices, Tier: tierN,
				Kind: c.Kind, Label: c.Label, Msg: c.Msg, Notes: c.Notes, Prop: ps.ID})
		}
		if hs.SelfCheck {
			selfVecs = append(selfVecs, &replayVec{Harness: hs.Name, Values: map[string]uint64{}, Tier: tierN, Kind: "selfcheck", Prop: ps.ID})
		}
	}

	// ---- native replays ----
	repDir := filepath.Join(verifDir, "replays")
	if d := os.Getenv("VP_REPLAY_DIR"); d != "" {
		repDir = d
	}
	tmpDir := filepath.Join(repDir, "tmp")
	var paths []string
	vecOf := map[string]*replayVec{}
	add := func(v *replayVec, dir, prefix string) {
		pth, err := writeVec(dir, prefix, v)
		if err == nil {
			if _, dup := vecOf[pth]; !dup {
				paths = append(paths, pth)
				vecOf[pth] = v
			}
		}
	}
	for _, v := range selfVecs {
		add(v, tmpDir, ps.ID+"-self")
	}
	for _, v := range sampleVecs {
		add(v, tmpDir, ps.ID+"-sample")
	}
	for _, v := range candVecs {
		add(v, repDir, ps.ID)
	}
	validated, mismatches, spurious, violations, knownHits := 0, 0, 0, 0, 0
	var lines []string
	if !*noNative {
		res, out, err := nativeReplay(*repo, hdir, work, paths, false)
		if err != nil {
			fmt.Println(out)
			fmt.Println("NATIVE-REPLAY-FAILED:", err)
			exitCode = 2
		}
		seenKnown := map[string]bool{}
		seenViol := map[string]bool{}
		raceSeen := map[string]int{}
		raceConfirmed := map[string]bool{}
		for _, pth := range paths {
			v := vecOf[pth]
			r, ok := res[pth]
			if !ok {
				continue
			}
			switch v.Kind {
			case "selfcheck", "sample":
				if r.Outcome == "pass" {
					validated++
				} else if r.Outcome == "assume" {
					// the solver model did not satisfy a native-side assumption: mismatch
					mismatches++
					lines = append(lines, fmt.Sprintf("ENGINE-MISMATCH %s %s: native outcome %s %s %s (engine: ok)", v.Kind, v.Harness, r.Outcome, r.Label, r.Msg))
				} else {
					mismatches++
					lines = append(lines, fmt.Sprintf("ENGINE-MISMATCH %s %s: native outcome %s %s %s (engine: ok) replay=%s", v.Kind, v.Harness, r.Outcome, r.Label, firstLine(r.Msg), pth))
				}
				if r.Outcome == "pass" {
					os.Remove(pth)
				}
			default:
				reproduced := false
				if strings.HasPrefix(v.Label, "frame:") && r.Outcome == "pass" {
					// a frame-condition candidate (unsynchronised write to shared state) is
					// confirmed by the race detector: the same replay with two goroutines
					raceKey := v.Harness + "|" + v.Label
					if raceSeen[raceKey] < 1 {
						raceSeen[raceKey]++
						_, rout, _ := nativeReplay(*repo, hdir, work, []string{pth}, true)
						if strings.Contains(rout, "WARNING: DATA RACE") {
							raceConfirmed[raceKey] = true
							lines = append(lines, fmt.Sprintf("RACE-CONFIRMED %s %q: go test -race reports a data race for this replay", v.Harness, v.Label))
						}
					}
					if raceConfirmed[raceKey] {
						r.Outcome = "assert"
						r.Label = "data race reported by the race detector"
					}
				}
				switch v.Kind {
				case "assert":
					reproduced = r.Outcome == "assert" || r.Outcome == "panic" || r.Outcome == "hang" || r.Outcome == "crash"
				case "panic":
					reproduced = r.Outcome == "panic" || r.Outcome == "assert" || r.Outcome == "crash"
				case "deadlock":
					reproduced = r.Outcome == "hang"
				}
				if !reproduced {
					spurious++
					lines = append(lines, fmt.Sprintf("SPURIOUS %s %s %q: native outcome %s (not reported as a violation)", v.Harness, v.Kind, v.Label, r.Outcome))
					os.Remove(pth)
					continue
				}
				// known finding?
				var kf *KnownFinding
				for k := range known {
					f := &known[k]
					if f.Status != "open" || f.Property != ps.ID {
						continue
					}
					if f.Harness != "" && f.Harness != v.Harness {
						continue
					}
					if f.Kind != v.Kind || f.Label != v.Label {
						continue
					}
					if !containsAll(v.Notes, f.NotesAll) {
						continue
					}
					kf = f
					break
				}
				if kf != nil {
					knownHits++
					key := kf.Kind + "|" + kf.Label + "|" + strings.Join(kf.NotesAll, ",")
					if !seenKnown[key] {
						seenKnown[key] = true
						lines = append(lines, fmt.Sprintf("KNOWN-FINDING: property=%s %s", ps.ID, kf.What))
					}
					os.Remove(pth)
					continue
				}
				violations++
				key := v.Harness + "|" + v.Kind + "|" + v.Label
				if !seenViol[key] {
					seenViol[key] = true
					lines = append(lines, fmt.Sprintf("VIOLATION property=%s replay=%s", ps.ID, pth))
					lines = append(lines, fmt.Sprintf("  harness=%s kind=%s label=%q engine=%q native=%s %q %s notes=%v", v.Harness, v.Kind, v.Label, firstLine(v.Msg), r.Outcome, r.Label, firstLine(r.Msg), v.Notes))
				} else {
					os.Remove(pth)
				}
			}
		}
	} else {
		exitCode = 2
	}
	for _, l := range lines {
		fmt.Println(l)
	}
	for _, e := range engineErrs {
		fmt.Println("ENGINE-ERROR", e)
	}
	for _, e := range vacuous {
		fmt.Println("VACUOUS", e)
	}
	for _, e := range boundNotes {
		fmt.Println("OUT-OF-BOUND", e)
	}
	if totIncon > 0 {
		fmt.Printf("INCONCLUSIVE %d solver queries returned unknown/timeout; those branches were kept / assertions not decided\n", totIncon)
		for _, e := range inconNotes {
			fmt.Println("  INCONCLUSIVE", e)
		}
	}
	if len(engineErrs) > 0 || len(vacuous) > 0 || mismatches > 0 || totQ.Errors > 0 {
		exitCode = 2
	}
	if violations > 0 {
		exitCode = 1
	}

	// ---- evidence ----
	var hnames []string
	var hdesc []map[string]interface{}
	for _, r := range results {
		hnames = append(hnames, r.spec.Name)
		hdesc = append(hdesc, map[string]interface{}{
			"harness": r.spec.Name, "what": r.spec.What, "paths": r.stats.Paths, "outcomes": r.stats.Outcomes,
			"decisions": r.stats.Decisions, "instructions": r.stats.Steps,
			"queries": r.stats.Queries, "reach_labels": r.stats.Reached, "wall_s": r.stats.WallS,
			"symbolic_inputs": r.stats.Inputs,
		})
	}
	var fnames []string
	for f := range funcsAll {
		if !strings.Contains(f, ".vp") && !strings.Contains(f, "(*github.com/blugelabs/ice/v2.vp") {
			fnames = append(fnames, shortFn(f))
		}
	}
	sort.Strings(fnames)
	if len(samples) == 0 {
		samples = append(samples, map[string]interface{}{"note": "no completed path produced a sample"})
	}
	cov := map[string]interface{}{
		"states":                        maxInt(totPaths, 0),
		"transitions":                   totDec,
		"traces_validated_against_impl": validated,
		"samples":                       samples,
		"programs":                      len(results),
		"disagreements_checked":         totQ.Sat + totQ.Unsat + totQ.Unknown,
		"evaluations":                   totPaths,
		"distinct_nontrivial":           totPaths,
		"rule":                          "one evaluation = one completed symbolic path of a harness (distinct decision vector); every path covers all values of its symbolic inputs that satisfy its path condition",
		"exhaustive":                    len(boundNotes) == 0 && totIncon == 0 && len(engineErrs) == 0,
		"harnesses":                     hdesc,
		"functions_encoded":             fnames,
		"solver_queries":                map[string]interface{}{"sat": totQ.Sat, "unsat": totQ.Unsat, "unknown": totQ.Unknown, "errors": totQ.Errors, "solver_seconds": totQ.Seconds},
		"fallback_solver":               map[string]int{"queries_retried": totFbQ, "decided_by_fallback": totFbD},
		"inconclusive":                  totIncon,
		"inconclusive_notes":            inconNotes,
		"out_of_bound":                  boundNotes,
		"engine_errors":                 engineErrs,
		"native_replays":                map[string]int{"validated": validated, "mismatches": mismatches, "spurious_candidates": spurious, "known_findings": knownHits, "violations": violations},
		"explanation":                   "bounded symbolic model checking of the real code: paths = states, branch/split/choice decisions = transitions",
	}
	ev := map[string]interface{}{
		"property_id": ps.ID,
		"tier":        *tier,
		"seed":        seed,
		"level":       ps.Level,
		"coverage":    cov,
		"assumptions": ps.Assumptions,
		"wall_s":      time.Since(t0).Seconds(),
		"violations":  violations,
	}
	evDir := filepath.Join(verifDir, "evidence")
	if d := os.Getenv("VP_EVIDENCE_DIR"); d != "" {
		evDir = d // sensitivity runs against other trees must not overwrite the registered evidence
	}
	os.MkdirAll(evDir, 0o755)
	eb, _ := json.MarshalIndent(ev, "", " ")
	if err := os.WriteFile(filepath.Join(evDir, ps.ID+".json"), eb, 0o644); err != nil {
		fmt.Println("cannot write evidence:", err)
		exitCode = 2
	}
	fmt.Printf("[%s %s] paths=%d decisions=%d queries=%d validated=%d violations=%d known=%d spurious=%d wall=%.1fs exit=%d\n",
		ps.ID, *tier, totPaths, totDec, totQ.Sat+totQ.Unsat+totQ.Unknown, validated, violations, knownHits, spurious, time.Since(t0).Seconds(), exitCode)
	os.Exit(exitCode)
}

func firstLine(s string) string {
	if i := strings.IndexByte(s, '\n'); i >= 0 {
		return s[:i]
	}
	return s
}

func maxInt(a, b int) int {
	if a > b {
		return a
	}
	return b
}
