package main

// Symbolic scalar values and the symbolic halves of binop / unop / conv.

import (
	"fmt"
	"go/token"
	"go/types"
	"math"
)

// symInt is an integer value of Go basic kind Kind whose bits are the term T.
type symInt struct {
	T    *Term
	Kind types.BasicKind
}

type symBool struct{ T *Term }

// symF32 is a float32 carried as its IEEE bit pattern.
type symF32 struct{ Bits *Term }

// symF64 is a float64 that is the exact widening of a float32 bit pattern.
type symF64 struct{ Bits *Term }

type engineError struct{ msg string }

func (e engineError) Error() string { return "ENGINE-ERROR: " + e.msg }

func isSym(v value) bool {
	switch v.(type) {
	case symInt, symBool, symF32, symF64:
		return true
	}
	return false
}

func kindWidth(k types.BasicKind) (w int, signed bool) {
	switch k {
	case types.Int, types.Int64:
		return 64, true
	case types.Int8:
		return 8, true
	case types.Int16:
		return 16, true
	case types.Int32:
		return 32, true
	case types.Uint, types.Uint64, types.Uintptr:
		return 64, false
	case types.Uint8:
		return 8, false
	case types.Uint16:
		return 16, false
	case types.Uint32:
		return 32, false
	}
	return 0, false
}

func basicKind(t types.Type) types.BasicKind {
	if b, ok := t.Underlying().(*types.Basic); ok {
		k := b.Kind()
		switch k {
		case types.UntypedInt:
			return types.Int
		case types.UntypedRune:
			return types.Int32
		case types.UntypedBool:
			return types.Bool
		case types.UntypedFloat:
			return types.Float64
		}
		return k
	}
	return types.Invalid
}

// concKind returns the basic kind of a concrete Go integer value.
func concKind(v value) (types.BasicKind, uint64, bool) {
	switch x := v.(type) {
	case int:
		return types.Int, uint64(x), true
	case int8:
		return types.Int8, uint64(x), true
	case int16:
		return types.Int16, uint64(x), true
	case int32:
		return types.Int32, uint64(x), true
	case int64:
		return types.Int64, uint64(x), true
	case uint:
		return types.Uint, uint64(x), true
	case uint8:
		return types.Uint8, uint64(x), true
	case uint16:
		return types.Uint16, uint64(x), true
	case uint32:
		return types.Uint32, uint64(x), true
	case uint64:
		return types.Uint64, x, true
	case uintptr:
		return types.Uintptr, uint64(x), true
	}
	return types.Invalid, 0, false
}

// mkConcInt builds the concrete Go value of kind k from raw bits.
func mkConcInt(k types.BasicKind, v uint64) value {
	switch k {
	case types.Int:
		return int(v)
	case types.Int8:
		return int8(v)
	case types.Int16:
		return int16(v)
	case types.Int32:
		return int32(v)
	case types.Int64:
		return int64(v)
	case types.Uint:
		return uint(v)
	case types.Uint8:
		return uint8(v)
	case types.Uint16:
		return uint16(v)
	case types.Uint32:
		return uint32(v)
	case types.Uint64:
		return v
	case types.Uintptr:
		return uintptr(v)
	}
	panic(engineError{fmt.Sprintf("mkConcInt: kind %v", k)})
}

// mkInt normalises: constant terms become concrete Go values.
func mkInt(k types.BasicKind, t *Term) value {
	if t.Op == OpConst {
		return mkConcInt(k, t.A)
	}
	return symInt{T: t, Kind: k}
}

func mkBool(t *Term) value {
	if t.Op == OpBConst {
		return t.A != 0
	}
	return symBool{T: t}
}

// intTerm returns the term and kind for an integer value (concrete or symbolic).
func (i *interpreter) intTerm(v value) (*Term, types.BasicKind) {
	switch x := v.(type) {
	case symInt:
		return x.T, x.Kind
	}
	k, bits, ok := concKind(v)
	if !ok {
		panic(engineError{fmt.Sprintf("intTerm: not an integer: %T", v)})
	}
	w, _ := kindWidth(k)
	return i.tb.Const(w, bits), k
}

func (i *interpreter) boolTerm(v value) *Term {
	switch x := v.(type) {
	case symBool:
		return x.T
	case bool:
		return i.tb.Bool(x)
	}
	panic(engineError{fmt.Sprintf("boolTerm: %T", v)})
}

func (i *interpreter) f32Bits(v value) *Term {
	switch x := v.(type) {
	case symF32:
		return x.Bits
	case float32:
		return i.tb.Const(32, uint64(math.Float32bits(x)))
	}
	panic(engineError{fmt.Sprintf("f32Bits: %T", v)})
}

// symBinop handles binary operators when at least one operand is symbolic.
func (i *interpreter) symBinop(op token.Token, t types.Type, x, y value) value {
	tb := i.tb
	// Bool operands
	_, xb := x.(symBool)
	_, yb := y.(symBool)
	if xb || yb {
		a, b := i.boolTerm(x), i.boolTerm(y)
		switch op {
		case token.EQL:
			return mkBool(tb.Cmp(OpEq, a, b))
		case token.NEQ:
			return mkBool(tb.BNot(tb.Cmp(OpEq, a, b)))
		case token.AND, token.LAND:
			return mkBool(tb.BAnd(a, b))
		case token.OR, token.LOR:
			return mkBool(tb.BOr(a, b))
		}
		panic(engineError{"symBinop: bool op " + op.String()})
	}
	// float32 patterns: only (in)equality is supported, and only as bit equality
	// which is exact for non-NaN, non-zero values (the input contract: norms > 0).
	switch x.(type) {
	case symF32, symF64:
		panic(engineError{"float arithmetic/comparison on symbolic float: " + op.String()})
	}
	switch y.(type) {
	case symF32, symF64:
		panic(engineError{"float arithmetic/comparison on symbolic float: " + op.String()})
	}

	// Shifts: operand kinds may differ.
	if op == token.SHL || op == token.SHR {
		a, ka := i.intTerm(x)
		b, kb := i.intTerm(y)
		wa, sa := kindWidth(ka)
		wb, sb := kindWidth(kb)
		if sb {
			// negative shift count panics in Go
			neg := tb.Cmp(OpSlt, b, tb.Const(wb, 0))
			if i.decide(neg, "negative shift") {
				panic(targetRuntimeError("negative shift amount"))
			}
		}
		var amt *Term
		var big *Term // condition: amount >= width
		if wb > wa {
			big = tb.BNot(tb.Cmp(OpUlt, b, tb.Const(wb, uint64(wa))))
			amt = tb.Extract(b, wa-1, 0)
		} else {
			amt = tb.ZExt(b, wa)
			big = tb.Bool(false)
		}
		var r *Term
		switch {
		case op == token.SHL:
			r = tb.Ite(big, tb.Const(wa, 0), tb.Bin(OpShl, a, amt))
		case sa:
			r = tb.Ite(big, tb.Bin(OpAShr, a, tb.Const(wa, uint64(wa-1))), tb.Bin(OpAShr, a, amt))
		default:
			r = tb.Ite(big, tb.Const(wa, 0), tb.Bin(OpLShr, a, amt))
		}
		return mkInt(ka, r)
	}

	a, ka := i.intTerm(x)
	b, kb := i.intTerm(y)
	if ka != kb {
		// tolerate int/uint aliasing of same width (e.g. uintptr)
		wa, _ := kindWidth(ka)
		wb, _ := kindWidth(kb)
		if wa != wb {
			panic(engineError{fmt.Sprintf("symBinop %s: kind mismatch %v vs %v", op, ka, kb)})
		}
	}
	w, signed := kindWidth(ka)
	_ = w
	switch op {
	case token.ADD:
		return mkInt(ka, tb.Bin(OpAdd, a, b))
	case token.SUB:
		return mkInt(ka, tb.Bin(OpSub, a, b))
	case token.MUL:
		return mkInt(ka, tb.Bin(OpMul, a, b))
	case token.QUO, token.REM:
		zero := tb.Cmp(OpEq, b, tb.Const(w, 0))
		if i.decide(zero, "divide by zero") {
			panic(targetRuntimeError("integer divide by zero"))
		}
		if signed {
			if op == token.QUO {
				return mkInt(ka, tb.Bin(OpSDiv, a, b))
			}
			return mkInt(ka, tb.Bin(OpSRem, a, b))
		}
		if op == token.QUO {
			return mkInt(ka, tb.Bin(OpUDiv, a, b))
		}
		return mkInt(ka, tb.Bin(OpURem, a, b))
	case token.AND:
		return mkInt(ka, tb.Bin(OpAnd, a, b))
	case token.OR:
		return mkInt(ka, tb.Bin(OpOr, a, b))
	case token.XOR:
		return mkInt(ka, tb.Bin(OpXor, a, b))
	case token.AND_NOT:
		return mkInt(ka, tb.Bin(OpAnd, a, tb.Un(OpNot, b)))
	case token.EQL:
		return mkBool(tb.Cmp(OpEq, a, b))
	case token.NEQ:
		return mkBool(tb.BNot(tb.Cmp(OpEq, a, b)))
	case token.LSS:
		if signed {
			return mkBool(tb.Cmp(OpSlt, a, b))
		}
		return mkBool(tb.Cmp(OpUlt, a, b))
	case token.LEQ:
		if signed {
			return mkBool(tb.Cmp(OpSle, a, b))
		}
		return mkBool(tb.Cmp(OpUle, a, b))
	case token.GTR:
		if signed {
			return mkBool(tb.Cmp(OpSlt, b, a))
		}
		return mkBool(tb.Cmp(OpUlt, b, a))
	case token.GEQ:
		if signed {
			return mkBool(tb.Cmp(OpSle, b, a))
		}
		return mkBool(tb.Cmp(OpUle, b, a))
	}
	panic(engineError{"symBinop: unsupported op " + op.String()})
}

func (i *interpreter) symUnop(op token.Token, x value) value {
	tb := i.tb
	switch v := x.(type) {
	case symBool:
		if op == token.NOT {
			return mkBool(tb.BNot(v.T))
		}
	case symInt:
		switch op {
		case token.SUB:
			return mkInt(v.Kind, tb.Un(OpNeg, v.T))
		case token.XOR:
			return mkInt(v.Kind, tb.Un(OpNot, v.T))
		}
	}
	panic(engineError{fmt.Sprintf("symUnop: %s %T", op, x)})
}

// symConv converts a symbolic scalar to the destination type.
func (i *interpreter) symConv(tDst, tSrc types.Type, x value) value {
	tb := i.tb
	kd := basicKind(tDst)
	switch v := x.(type) {
	case symBool:
		return v
	case symF32:
		switch kd {
		case types.Float32:
			return v
		case types.Float64:
			return symF64{Bits: v.Bits}
		}
		panic(engineError{"conversion of symbolic float32 to " + tDst.String()})
	case symF64:
		switch kd {
		case types.Float64:
			return v
		case types.Float32:
			return symF32{Bits: v.Bits}
		}
		panic(engineError{"conversion of symbolic float64 to " + tDst.String()})
	case symInt:
		wd, _ := kindWidth(kd)
		if wd == 0 {
			if kd == types.String {
				// string(rune) of symbolic – concretise
				c := i.concretize(v, "string(int)")
				return conv(i, tDst, tSrc, c)
			}
			if kd == types.Float32 || kd == types.Float64 {
				c := i.concretize(v, "int->float")
				return conv(i, tDst, tSrc, c)
			}
			panic(engineError{"conversion of symbolic int to " + tDst.String()})
		}
		ws, ss := kindWidth(v.Kind)
		var r *Term
		switch {
		case wd == ws:
			r = v.T
		case wd < ws:
			r = tb.Extract(v.T, wd-1, 0)
		case ss:
			r = tb.SExt(v.T, wd)
		default:
			r = tb.ZExt(v.T, wd)
		}
		return mkInt(kd, r)
	}
	panic(engineError{fmt.Sprintf("symConv: %T", x)})
}
