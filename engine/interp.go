// Derived from golang.org/x/tools/go/ssa/interp (BSD license, see LICENSE.xtools);
// extended with symbolic scalars, decisions and deterministic maps.

package main

import (
	"fmt"
	"go/token"
	"go/types"
	"log"
	"os"
	"runtime"
	"slices"
	"strings"

	"golang.org/x/tools/go/ssa"
)

type continuation int

const (
	kNext continuation = iota
	kReturn
	kJump
)

// Mode is a bitmask of options affecting the interpreter.
type Mode uint

const (
	DisableRecover Mode = 1 << iota // Disable recover() in target programs; show interpreter crash instead.
	EnableTracing                   // Print a trace of all instructions as they are interpreted.
)

type methodSet map[string]*ssa.Function

// State of one path execution.
type interpreter struct {
	p                  *Program
	prog               *ssa.Program           // the SSA program
	globals            map[*ssa.Global]*value // addresses of global variables
	mode               Mode                   // interpreter options
	reflectPackage     *ssa.Package           // the fake reflect package
	errorMethods       methodSet              // the method set of reflect.error, which implements the error interface.
	rtypeMethods       methodSet              // the method set of rtype, which implements the reflect.Type interface.
	runtimeErrorString types.Type             // the runtime.errorString type
	sizes              types.Sizes            // the effective type-sizing function

	tb        *TermBank
	ps        *pathState
	funcsSeen map[*ssa.Function]int
	pools     map[*value][]value // sync.Pool model: objects Put so far
	poolReuse bool               // Get hands back the most recently Put object
	mapRev    bool               // map ranges iterate in reverse insertion order
	cancelAt  int                // isClosed poll index from which the channel reads closed (-1: never)
	polls     int
	wsActive  bool               // write-set tracking active
	wsShared  map[*value]bool    // cells that were reachable at vpWriteSetBegin
	wsLocks   int                // number of currently held sync.Mutex / running Once
	wsWrites  map[string]int     // store sites that wrote a shared cell outside a lock
	faultAt   int                // ReadAt call index from which the file model fails (-1 never)
	readAts   int
	panicSite string
	panicPos  string
	panicInIce bool
	top       *frame
	depth     int
}

// stack renders the interpreted call stack (innermost first).
func (i *interpreter) stack() string {
	var sb strings.Builder
	n := 0
	for fr := i.top; fr != nil && n < 40; fr = fr.caller {
		pos := ""
		if fr.cur != nil {
			p := i.prog.Fset.Position(fr.cur.Pos())
			pos = fmt.Sprintf(" (%s:%d)", shortPath(p.Filename), p.Line)
		}
		fmt.Fprintf(&sb, "\n    %s%s", fr.fn, pos)
		n++
	}
	return sb.String()
}

type deferred struct {
	fn    value
	args  []value
	instr *ssa.Defer
	tail  *deferred
}

type frame struct {
	i                *interpreter
	caller           *frame
	fn               *ssa.Function
	block, prevBlock *ssa.BasicBlock
	env              []value          // dynamic values of SSA variables, indexed by slot
	slots            map[ssa.Value]int // slot numbers of this function's values
	locals           []value
	defers           *deferred
	result           value
	panicking        bool
	panic            interface{}
	phitemps         []value // temporaries for parallel phi assignment
	cur              ssa.Instruction
}

func (fr *frame) get(key ssa.Value) value {
	switch key := key.(type) {
	case nil:
		// Hack; simplifies handling of optional attributes
		// such as ssa.Slice.{Low,High}.
		return nil
	case *ssa.Function, *ssa.Builtin:
		return key
	case *ssa.Const:
		return constValue(key)
	case *ssa.Global:
		return fr.i.global(key)
	}
	if k, ok := fr.slots[key]; ok {
		return fr.env[k]
	}
	panic(fmt.Sprintf("get: no value for %T: %v", key, key.Name()))
}

// runDefer runs a deferred call d.
// It always returns normally, but may set or clear fr.panic.
func (fr *frame) runDefer(d *deferred) {
	if fr.i.mode&EnableTracing != 0 {
		fmt.Fprintf(os.Stderr, "%s: invoking deferred function call\n",
			fr.i.prog.Fset.Position(d.instr.Pos()))
	}
	var ok bool
	defer func() {
		if !ok {
			// Deferred call created a new state of panic.
			fr.panicking = true
			fr.panic = recover()
		}
	}()
	call(fr.i, fr, d.instr.Pos(), d.fn, d.args)
	ok = true
}

// runDefers executes fr's deferred function calls in LIFO order.
//
// On entry, fr.panicking indicates a state of panic; if
// true, fr.panic contains the panic value.
//
// On completion, if a deferred call started a panic, or if no
// deferred call recovered from a previous state of panic, then
// runDefers itself panics after the last deferred call has run.
//
// If there was no initial state of panic, or it was recovered from,
// runDefers returns normally.
func (fr *frame) runDefers() {
	for d := fr.defers; d != nil; d = d.tail {
		fr.runDefer(d)
	}
	fr.defers = nil
	if fr.panicking {
		panic(fr.panic) // new panic, or still panicking
	}
}

// lookupMethod returns the method set for type typ, which may be one
// of the interpreter's fake types.
func lookupMethod(i *interpreter, typ types.Type, meth *types.Func) *ssa.Function {
	switch typ {
	case rtypeType:
		return i.rtypeMethods[meth.Id()]
	case errorType:
		return i.errorMethods[meth.Id()]
	}
	return i.prog.LookupMethod(typ, meth.Pkg(), meth.Name())
}

// visitInstr interprets a single ssa.Instruction within the activation
// record frame.  It returns a continuation value indicating where to
// read the next instruction from.
func visitInstr(fr *frame, instr ssa.Instruction) continuation {
	switch instr := instr.(type) {
	case *ssa.DebugRef:
		// no-op

	case *ssa.UnOp:
		fr.env[fr.slots[instr]] = unop(fr.i, instr, fr.get(instr.X))

	case *ssa.BinOp:
		fr.env[fr.slots[instr]] = binop(fr.i, instr.Op, instr.X.Type(), fr.get(instr.X), fr.get(instr.Y))

	case *ssa.Call:
		fn, args := prepareCall(fr, &instr.Call)
		fr.env[fr.slots[instr]] = call(fr.i, fr, instr.Pos(), fn, args)

	case *ssa.ChangeInterface:
		fr.env[fr.slots[instr]] = fr.get(instr.X)

	case *ssa.ChangeType:
		fr.env[fr.slots[instr]] = fr.get(instr.X) // (can't fail)

	case *ssa.Convert:
		fr.env[fr.slots[instr]] = conv(fr.i, instr.Type(), instr.X.Type(), fr.get(instr.X))

	case *ssa.SliceToArrayPointer:
		fr.env[fr.slots[instr]] = sliceToArrayPointer(instr.Type(), instr.X.Type(), fr.get(instr.X))

	case *ssa.MakeInterface:
		fr.env[fr.slots[instr]] = iface{t: instr.X.Type(), v: fr.get(instr.X)}

	case *ssa.Extract:
		fr.env[fr.slots[instr]] = fr.get(instr.Tuple).(tuple)[instr.Index]

	case *ssa.Slice:
		fr.env[fr.slots[instr]] = slice(fr.i, fr.get(instr.X), fr.get(instr.Low), fr.get(instr.High), fr.get(instr.Max))

	case *ssa.Return:
		switch len(instr.Results) {
		case 0:
		case 1:
			fr.result = fr.get(instr.Results[0])
		default:
			var res []value
			for _, r := range instr.Results {
				res = append(res, fr.get(r))
			}
			fr.result = tuple(res)
		}
		fr.block = nil
		return kReturn

	case *ssa.RunDefers:
		fr.runDefers()

	case *ssa.Panic:
		panic(targetPanic{fr.get(instr.X)})

	case *ssa.Send:
		fr.get(instr.Chan).(chan value) <- fr.get(instr.X)

	case *ssa.Store:
		addr := fr.get(instr.Addr).(*value)
		if addr == nil {
			panic(targetRuntimeError("invalid memory address or nil pointer dereference"))
		}
		if fr.i.wsActive {
			fr.i.noteStore(fr, instr, addr)
		}
		store(mustDeref(instr.Addr.Type()), addr, fr.get(instr.Val))

	case *ssa.If:
		succ := 1
		switch c := fr.get(instr.Cond).(type) {
		case bool:
			if c {
				succ = 0
			}
		case symBool:
			if fr.i.decide(c.T, "if") {
				succ = 0
			}
		default:
			panic(engineError{fmt.Sprintf("If on %T", c)})
		}
		fr.prevBlock, fr.block = fr.block, fr.block.Succs[succ]
		return kJump

	case *ssa.Jump:
		fr.prevBlock, fr.block = fr.block, fr.block.Succs[0]
		return kJump

	case *ssa.Defer:
		fn, args := prepareCall(fr, &instr.Call)
		defers := &fr.defers
		if into := fr.get(instr.DeferStack); into != nil {
			defers = into.(**deferred)
		}
		*defers = &deferred{
			fn:    fn,
			args:  args,
			instr: instr,
			tail:  *defers,
		}

	case *ssa.Go:
		panic(engineError{"go statement not supported"})

	case *ssa.MakeChan:
		fr.env[fr.slots[instr]] = make(chan value, fr.i.concInt(fr.get(instr.Size), "makechan"))

	case *ssa.Alloc:
		var addr *value
		if instr.Heap {
			// new
			addr = new(value)
			fr.env[fr.slots[instr]] = addr
		} else {
			// local
			addr = fr.env[fr.slots[instr]].(*value)
		}
		*addr = zero(mustDeref(instr.Type()))

	case *ssa.MakeSlice:
		n := fr.i.concInt(fr.get(instr.Len), "makeslice len")
		c := fr.i.concInt(fr.get(instr.Cap), "makeslice cap")
		if n < 0 || n > c || c > 1<<28 {
			panic(targetRuntimeError(fmt.Sprintf("makeslice: len/cap out of range (%d,%d)", n, c)))
		}
		tElt := instr.Type().Underlying().(*types.Slice).Elem()
		slice := make([]value, c)
		for i := range slice {
			slice[i] = zero(tElt)
		}
		fr.env[fr.slots[instr]] = slice[:n]

	case *ssa.MakeMap:
		fr.env[fr.slots[instr]] = makeMap(instr.Type().Underlying().(*types.Map).Key())

	case *ssa.Range:
		fr.env[fr.slots[instr]] = rangeIter(fr.i, fr.get(instr.X), instr.X.Type())

	case *ssa.Next:
		fr.env[fr.slots[instr]] = fr.get(instr.Iter).(iter).next()

	case *ssa.FieldAddr:
		p := fr.get(instr.X).(*value)
		if p == nil {
			panic(targetRuntimeError("invalid memory address or nil pointer dereference"))
		}
		fr.env[fr.slots[instr]] = &(*p).(structure)[instr.Field]

	case *ssa.Field:
		fr.env[fr.slots[instr]] = fr.get(instr.X).(structure)[instr.Field]

	case *ssa.IndexAddr:
		x := fr.get(instr.X)
		switch x := x.(type) {
		case []value:
			idx := fr.i.index(fr.get(instr.Index), len(x))
			fr.env[fr.slots[instr]] = &x[idx]
		case *value: // *array
			if x == nil {
				panic(targetRuntimeError("invalid memory address or nil pointer dereference"))
			}
			a := (*x).(array)
			idx := fr.i.index(fr.get(instr.Index), len(a))
			fr.env[fr.slots[instr]] = &a[idx]
		default:
			panic(fmt.Sprintf("unexpected x type in IndexAddr: %T", x))
		}

	case *ssa.Index:
		x := fr.get(instr.X)
		switch x := x.(type) {
		case array:
			fr.env[fr.slots[instr]] = x[fr.i.index(fr.get(instr.Index), len(x))]
		case string:
			fr.env[fr.slots[instr]] = x[fr.i.index(fr.get(instr.Index), len(x))]
		default:
			panic(fmt.Sprintf("unexpected x type in Index: %T", x))
		}

	case *ssa.Lookup:
		fr.env[fr.slots[instr]] = lookup(fr.i, instr, fr.get(instr.X), fr.get(instr.Index))

	case *ssa.MapUpdate:
		m := fr.get(instr.Map).(*omap)
		if m == nil {
			panic(targetRuntimeError("assignment to entry in nil map"))
		}
		m.insert(fr.i.mapKey(fr.get(instr.Key)), fr.get(instr.Value))

	case *ssa.TypeAssert:
		fr.env[fr.slots[instr]] = typeAssert(fr.i, instr, fr.get(instr.X).(iface))

	case *ssa.MakeClosure:
		var bindings []value
		for _, binding := range instr.Bindings {
			bindings = append(bindings, fr.get(binding))
		}
		fr.env[fr.slots[instr]] = &closure{instr.Fn.(*ssa.Function), bindings}

	case *ssa.Phi:
		log.Fatal("unreachable") // phis are processed at block entry

	case *ssa.Select:
		fr.env[fr.slots[instr]] = fr.i.doSelect(fr, instr)

	default:
		panic(fmt.Sprintf("unexpected instruction: %T", instr))
	}

	// if val, ok := instr.(ssa.Value); ok {
	// 	fmt.Println(toString(fr.env[val])) // debugging
	// }

	return kNext
}

// prepareCall determines the function value and argument values for a
// function call in a Call, Go or Defer instruction, performing
// interface method lookup if needed.
func prepareCall(fr *frame, call *ssa.CallCommon) (fn value, args []value) {
	v := fr.get(call.Value)
	if call.Method == nil {
		// Function call.
		fn = v
	} else {
		// Interface method invocation.
		recv := v.(iface)
		if recv.t == nil {
			panic(targetRuntimeError("invalid memory address or nil pointer dereference (method on nil interface)"))
		}
		if f := lookupMethod(fr.i, recv.t, call.Method); f == nil {
			// Unreachable in well-typed programs.
			panic(fmt.Sprintf("method set for dynamic type %v does not contain %s", recv.t, call.Method))
		} else {
			fn = f
		}
		args = append(args, recv.v)
	}
	for _, arg := range call.Args {
		args = append(args, fr.get(arg))
	}
	return
}

// call interprets a call to a function (function, builtin or closure)
// fn with arguments args, returning its result.
// callpos is the position of the callsite.
func call(i *interpreter, caller *frame, callpos token.Pos, fn value, args []value) value {
	switch fn := fn.(type) {
	case *ssa.Function:
		if fn == nil {
			panic(targetRuntimeError("invalid memory address or nil pointer dereference (nil func)"))
		}
		return callSSA(i, caller, callpos, fn, args, nil)
	case *closure:
		return callSSA(i, caller, callpos, fn.Fn, args, fn.Env)
	case *ssa.Builtin:
		return callBuiltin(caller, callpos, fn, args)
	}
	panic(fmt.Sprintf("cannot call %T", fn))
}

func loc(fset *token.FileSet, pos token.Pos) string {
	if pos == token.NoPos {
		return ""
	}
	return " at " + fset.Position(pos).String()
}

// callSSA interprets a call to function fn with arguments args,
// and lexical environment env, returning its result.
// callpos is the position of the callsite.
func callSSA(i *interpreter, caller *frame, callpos token.Pos, fn *ssa.Function, args []value, env []value) value {
	if i.mode&EnableTracing != 0 {
		fset := fn.Prog.Fset
		fmt.Fprintf(os.Stderr, "Entering %s%s.\n", fn, loc(fset, fn.Pos()))
		suffix := ""
		if caller != nil {
			suffix = ", resuming " + caller.fn.String() + loc(fset, callpos)
		}
		defer fmt.Fprintf(os.Stderr, "Leaving %s%s.\n", fn, suffix)
	}
	fr := &frame{
		i:      i,
		caller: caller, // for panic/recover
		fn:     fn,
	}
	if fn.Parent() == nil {
		info := i.p.fnInfo(fn)
		if info.ext != nil {
			return info.ext(fr, args)
		}
		if info.skipInit {
			return nil
		}
		if fn.Blocks == nil {
			panic(engineError{"no code for function: " + fn.String()})
		}
	}
	i.funcsSeen[fn]++
	prevTop := i.top
	i.top = fr
	if i.ps.ex.trace {
		fmt.Fprintf(os.Stderr, "%s-> %s\n", strings.Repeat(" ", i.depth), fn)
	}
	i.depth++

	// generic function body?
	if fn.TypeParams().Len() > 0 && len(fn.TypeArgs()) == 0 {
		panic("interp requires ssa.BuilderMode to include InstantiateGenerics to execute generics")
	}

	fr.slots = i.p.slotsOf(fn)
	fr.env = make([]value, len(fr.slots))
	fr.block = fn.Blocks[0]
	fr.locals = make([]value, len(fn.Locals))
	for i, l := range fn.Locals {
		fr.locals[i] = zero(mustDeref(l.Type()))
		fr.env[fr.slots[l]] = &fr.locals[i]
	}
	for i, p := range fn.Params {
		fr.env[fr.slots[p]] = args[i]
	}
	for i, fv := range fn.FreeVars {
		fr.env[fr.slots[fv]] = env[i]
	}
	for fr.block != nil {
		runFrame(fr)
	}
	// Destroy the locals to avoid accidental use after return.
	for i := range fn.Locals {
		fr.locals[i] = bad{}
	}
	i.top = prevTop
	i.depth--
	return fr.result
}

// runFrame executes SSA instructions starting at fr.block and
// continuing until a return, a panic, or a recovered panic.
//
// After a panic, runFrame panics.
//
// After a normal return, fr.result contains the result of the call
// and fr.block is nil.
//
// A recovered panic in a function without named return parameters
// (NRPs) becomes a normal return of the zero value of the function's
// result type.
//
// After a recovered panic in a function with NRPs, fr.result is
// undefined and fr.block contains the block at which to resume
// control.
func runFrame(fr *frame) {
	defer func() {
		if fr.block == nil {
			return // normal return
		}
		if fr.i.mode&DisableRecover != 0 {
			return // let interpreter crash
		}
		r := recover()
		switch r.(type) {
		case pathInfeasible, pathAbort, engineError:
			panic(r) // engine control flow: not visible to the target program
		case runtime.Error:
			// a Go run-time error inside the engine itself (not a modelled
			// target error) is an engine bug
			panic(engineError{fmt.Sprintf("engine run-time error in %s: %v", fr.fn, r)})
		case string:
			panic(engineError{fmt.Sprintf("engine panic in %s: %v", fr.fn, r)})
		case targetRuntimePanic, targetPanic:
			if fr.cur != nil && (fr.i.panicSite == "" || !fr.i.panicInIce) {
				inIce := fr.fn.Pkg == fr.i.p.icePkg || (fr.fn.Parent() != nil && fr.fn.Parent().Pkg == fr.i.p.icePkg)
				if fr.i.panicSite == "" || inIce {
					pos := fr.i.prog.Fset.Position(fr.cur.Pos())
					fr.i.panicSite = shortFn(fr.fn.String())
					fr.i.panicPos = fmt.Sprintf("%s:%d", shortPath(pos.Filename), pos.Line)
					fr.i.panicInIce = inIce
				}
			}
		}
		fr.panicking = true
		fr.panic = r
		if fr.i.mode&EnableTracing != 0 {
			fmt.Fprintf(os.Stderr, "Panicking: %T %v.\n", fr.panic, fr.panic)
		}
		fr.runDefers()
		fr.block = fr.fn.Recover
	}()

	for {
		if fr.i.mode&EnableTracing != 0 {
			fmt.Fprintf(os.Stderr, ".%s:\n", fr.block)
		}

		nonPhis := executePhis(fr)
		for _, instr := range nonPhis {
			if fr.i.mode&EnableTracing != 0 {
				if v, ok := instr.(ssa.Value); ok {
					fmt.Fprintln(os.Stderr, "\t", v.Name(), "=", instr)
				} else {
					fmt.Fprintln(os.Stderr, "\t", instr)
				}
			}
			fr.i.ps.steps++
			fr.cur = instr
			if fr.i.ps.steps > fr.i.ps.ex.stepBudget {
				panic(pathAbort{OutBudget, fmt.Sprintf("step budget %d exceeded in %s", fr.i.ps.ex.stepBudget, fr.fn)})
			}
			if visitInstr(fr, instr) == kReturn {
				return
			}
			// Inv: kNext (continue) or kJump (last instr)
		}
	}
}

// executePhis executes the phi-nodes at the start of the current
// block and returns the non-phi instructions.
func executePhis(fr *frame) []ssa.Instruction {
	firstNonPhi := -1
	for i, instr := range fr.block.Instrs {
		if _, ok := instr.(*ssa.Phi); !ok {
			firstNonPhi = i
			break
		}
	}
	// Inv: 0 <= firstNonPhi; every block contains a non-phi.

	nonPhis := fr.block.Instrs[firstNonPhi:]
	if firstNonPhi > 0 {
		phis := fr.block.Instrs[:firstNonPhi]
		// Execute parallel assignment of phis.
		//
		// See "the swap problem" in Briggs et al's "Practical Improvements
		// to the Construction and Destruction of SSA Form" for discussion.
		predIndex := slices.Index(fr.block.Preds, fr.prevBlock)
		fr.phitemps = fr.phitemps[:0]
		for _, phi := range phis {
			phi := phi.(*ssa.Phi)
			if fr.i.mode&EnableTracing != 0 {
				fmt.Fprintln(os.Stderr, "\t", phi.Name(), "=", phi)
			}
			fr.phitemps = append(fr.phitemps, fr.get(phi.Edges[predIndex]))
		}
		for i, phi := range phis {
			fr.env[fr.slots[phi.(*ssa.Phi)]] = fr.phitemps[i]
		}
	}
	return nonPhis
}

// doRecover implements the recover() built-in.
func doRecover(caller *frame) value {
	// recover() must be exactly one level beneath the deferred
	// function (two levels beneath the panicking function) to
	// have any effect.  Thus we ignore both "defer recover()" and
	// "defer f() -> g() -> recover()".
	if caller.i.mode&DisableRecover == 0 &&
		caller != nil && !caller.panicking &&
		caller.caller != nil && caller.caller.panicking {
		caller.caller.panicking = false
		caller.i.panicSite, caller.i.panicPos, caller.i.panicInIce = "", "", false
		p := caller.caller.panic
		caller.caller.panic = nil

		// TODO(adonovan): support runtime.Goexit.
		switch p := p.(type) {
		case targetPanic:
			// The target program explicitly called panic().
			return p.v
		case targetRuntimePanic:
			return iface{caller.i.runtimeErrorString, p.msg}
		case runtime.Error:
			// The interpreter encountered a runtime error.
			return iface{caller.i.runtimeErrorString, p.Error()}
		case string:
			// The interpreter explicitly called panic().
			return iface{caller.i.runtimeErrorString, p}
		default:
			panic(fmt.Sprintf("unexpected panic type %T in target call to recover()", p))
		}
	}
	return iface{}
}


// mustDeref returns the element type of a pointer type.
func mustDeref(t types.Type) types.Type {
	if p, ok := t.Underlying().(*types.Pointer); ok {
		return p.Elem()
	}
	panic(fmt.Sprintf("mustDeref: %v is not a pointer", t))
}

var _ = log.Fatal
