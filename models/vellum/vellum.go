// Package vellum is a MODEL of github.com/blevesearch/vellum v1.0.7 used only
// inside the symbolic engine: an FST is a sorted list of (key, uint64) with a
// trivial serialisation.  It reproduces the observable behaviour ice relies on:
// ordered insertion (ErrOutOfOrder), a header written at New/Reset time and
// the body at Close, iterators that return (nil, ErrIteratorDone) when the
// range is empty, Current() returning a reused key buffer, and the quirk that
// an exhausted iterator's Current() yields the empty key's entry when the FST
// contains the empty key (else nil, 0).
package vellum

import (
	"bytes"
	"errors"
	"io"
)

var ErrOutOfOrder = errors.New("values not inserted in lexicographic order")
var ErrIteratorDone = errors.New("iterator-done")
var errBadFST = errors.New("vellum model: invalid fst data")

type BuilderOpts struct {
	Encoder                  int
	RegistryTableSize        int
	RegistryMRUSize          int
	UnfinishedNodesStackSize int
	BuilderNodePoolingConfig int
}

type Automaton interface {
	Start() int
	IsMatch(int) bool
	CanMatch(int) bool
	WillAlwaysMatch(int) bool
	Accept(int, byte) int
}

type Builder struct {
	w       io.Writer
	keys    [][]byte
	vals    []uint64
	last    []byte
	hasRoot bool
	rootVal uint64
}

var header = []byte{'V', 'F', 'S', 'T'}

func New(w io.Writer, opts *BuilderOpts) (*Builder, error) {
	b := &Builder{}
	if err := b.Reset(w); err != nil {
		return nil, err
	}
	return b, nil
}

func (b *Builder) Reset(w io.Writer) error {
	b.w = w
	b.keys = b.keys[:0]
	b.vals = b.vals[:0]
	b.last = nil
	b.hasRoot = false
	b.rootVal = 0
	_, err := w.Write(header)
	return err
}

func (b *Builder) Insert(key []byte, val uint64) error {
	if bytes.Compare(key, b.last) < 0 {
		return ErrOutOfOrder
	}
	if len(key) == 0 {
		b.hasRoot = true
		b.rootVal = val
		return nil
	}
	if len(b.keys) > 0 && bytes.Equal(b.keys[len(b.keys)-1], key) {
		b.vals[len(b.vals)-1] = val
		return nil
	}
	k := append([]byte(nil), key...)
	b.keys = append(b.keys, k)
	b.vals = append(b.vals, val)
	b.last = k
	return nil
}

func putU64(buf []byte, v uint64) []byte {
	return append(buf, byte(v>>56), byte(v>>48), byte(v>>40), byte(v>>32), byte(v>>24), byte(v>>16), byte(v>>8), byte(v))
}

func getU64(p []byte) uint64 {
	return uint64(p[0])<<56 | uint64(p[1])<<48 | uint64(p[2])<<40 | uint64(p[3])<<32 |
		uint64(p[4])<<24 | uint64(p[5])<<16 | uint64(p[6])<<8 | uint64(p[7])
}

// Close writes: count(8) { klen(8) key val(8) }* ; the empty key, if any, comes first.
func (b *Builder) Close() error {
	n := len(b.keys)
	if b.hasRoot {
		n++
	}
	var out []byte
	out = putU64(out, uint64(n))
	if b.hasRoot {
		out = putU64(out, 0)
		out = putU64(out, b.rootVal)
	}
	for i, k := range b.keys {
		out = putU64(out, uint64(len(k)))
		out = append(out, k...)
		out = putU64(out, b.vals[i])
	}
	_, err := b.w.Write(out)
	return err
}

type FST struct {
	keys [][]byte
	vals []uint64
}

func Load(data []byte) (*FST, error) {
	if len(data) < 12 || !bytes.Equal(data[:4], header) {
		return nil, errBadFST
	}
	p := data[4:]
	n := int(getU64(p))
	p = p[8:]
	f := &FST{}
	for i := 0; i < n; i++ {
		if len(p) < 8 {
			return nil, errBadFST
		}
		kl := int(getU64(p))
		p = p[8:]
		if len(p) < kl+8 {
			return nil, errBadFST
		}
		f.keys = append(f.keys, p[:kl:kl])
		p = p[kl:]
		f.vals = append(f.vals, getU64(p))
		p = p[8:]
	}
	if len(p) != 0 {
		return nil, errBadFST
	}
	return f, nil
}

func (f *FST) Len() int { return len(f.keys) }

func (f *FST) Get(input []byte) (uint64, bool, error) {
	for i, k := range f.keys {
		if bytes.Equal(k, input) {
			return f.vals[i], true, nil
		}
	}
	return 0, false, nil
}

func (f *FST) Contains(val []byte) (bool, error) {
	_, ok, err := f.Get(val)
	return ok, err
}

func (f *FST) Close() error { return nil }

// A Reader is a per-caller lookup handle: like the real one (which keeps a
// preallocated decoder state) it is written by every Get, so it must not be
// shared between concurrent callers.
type Reader struct {
	f       *FST
	scratch int
}

func (f *FST) Reader() (*Reader, error) { return &Reader{f: f}, nil }

func (r *Reader) Get(input []byte) (uint64, bool, error) {
	r.scratch = len(input)
	return r.f.Get(input)
}

type Iterator interface {
	Current() ([]byte, uint64)
	Next() error
	Seek(key []byte) error
	Reset(f *FST, startKeyInclusive, endKeyExclusive []byte, aut Automaton) error
	Close() error
}

type FSTIterator struct {
	f     *FST
	aut   Automaton
	start []byte
	end   []byte
	pos   int  // index of the current key
	done  bool // exhausted all keys
	buf   []byte
}

func (f *FST) Iterator(startKeyInclusive, endKeyExclusive []byte) (*FSTIterator, error) {
	return newIterator(f, startKeyInclusive, endKeyExclusive, nil)
}

func (f *FST) Search(aut Automaton, startKeyInclusive, endKeyExclusive []byte) (*FSTIterator, error) {
	return newIterator(f, startKeyInclusive, endKeyExclusive, aut)
}

func newIterator(f *FST, start, end []byte, aut Automaton) (*FSTIterator, error) {
	rv := &FSTIterator{}
	if err := rv.Reset(f, start, end, aut); err != nil {
		return nil, err
	}
	return rv, nil
}

func (i *FSTIterator) matches(k []byte) bool {
	if i.aut == nil {
		return true
	}
	st := i.aut.Start()
	for _, c := range k {
		st = i.aut.Accept(st, c)
	}
	return i.aut.IsMatch(st)
}

func (i *FSTIterator) Reset(f *FST, startKeyInclusive, endKeyExclusive []byte, aut Automaton) error {
	i.f = f
	i.aut = aut
	i.start = startKeyInclusive
	i.end = endKeyExclusive
	return i.pointTo(startKeyInclusive)
}

// pointTo positions the iterator on the first matching key >= key.
func (i *FSTIterator) pointTo(key []byte) error {
	if bytes.Compare(key, i.start) < 0 {
		key = i.start
	}
	if i.end != nil && bytes.Compare(key, i.end) > 0 {
		key = i.end
	}
	i.done = false
	i.pos = -1
	// like the real iterator (v1.0.7 pointTo): a key that is present and accepted
	// by the automaton is pointed to WITHOUT comparing it with the end bound;
	// only the keys found by walking on are checked against it
	for p, k := range i.f.keys {
		if bytes.Equal(k, key) && i.matches(k) {
			i.pos = p
			return nil
		}
	}
	return i.advance(key, true)
}

// advance moves to the next matching key after pos (or >= from when first).
func (i *FSTIterator) advance(from []byte, first bool) error {
	for p := i.pos + 1; p < len(i.f.keys); p++ {
		k := i.f.keys[p]
		if first && bytes.Compare(k, from) < 0 {
			continue
		}
		if !i.matches(k) {
			continue
		}
		i.pos = p
		if i.end != nil && bytes.Compare(k, i.end) >= 0 {
			return ErrIteratorDone
		}
		return nil
	}
	i.done = true
	return ErrIteratorDone
}

func (i *FSTIterator) Current() ([]byte, uint64) {
	if i.done {
		if len(i.f.keys) > 0 && len(i.f.keys[0]) == 0 {
			return i.buf[:0], i.f.vals[0]
		}
		return nil, 0
	}
	if i.pos < 0 {
		return nil, 0
	}
	i.buf = append(i.buf[:0], i.f.keys[i.pos]...)
	return i.buf, i.f.vals[i.pos]
}

func (i *FSTIterator) Next() error {
	if i.done {
		return ErrIteratorDone
	}
	return i.advance(nil, false)
}

func (i *FSTIterator) Seek(key []byte) error { return i.pointTo(key) }

func (i *FSTIterator) Close() error { return nil }

// GetMinKey / GetMaxKey return the smallest / largest key (nil for an empty FST).
func (f *FST) GetMinKey() ([]byte, error) {
	if len(f.keys) == 0 {
		// like the real one (v1.0.7): the walk indexes the first transition of a
		// root that has none: runtime panic, index out of range
		var none []byte
		_ = none[len(f.keys)-1+len(none)]
	}
	return append([]byte(nil), f.keys[0]...), nil
}

func (f *FST) GetMaxKey() ([]byte, error) {
	if len(f.keys) == 0 {
		return nil, nil
	}
	return append([]byte(nil), f.keys[len(f.keys)-1]...), nil
}

// Exists / Len on a Reader-less FST are covered by Contains and Len above.
