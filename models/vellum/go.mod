module github.com/blevesearch/vellum

go 1.16
