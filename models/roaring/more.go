package roaring

// The rest of the commonly used roaring v0.9.4 API, so that a change to ice
// that starts using another documented bitmap operation still loads in the
// engine.  Same representation: a sorted slice of concrete uint32 members.

import (
	"bytes"
	"io"
	"strconv"
)

func (rb *Bitmap) AddInt(x int) { rb.Add(uint32(x)) }

func (rb *Bitmap) ContainsInt(x int) bool { return rb.Contains(uint32(x)) }

// CheckedAdd adds x and reports whether it was absent.
func (rb *Bitmap) CheckedAdd(x uint32) bool {
	if rb.Contains(x) {
		return false
	}
	rb.Add(x)
	return true
}

// CheckedRemove removes x and reports whether it was present.
func (rb *Bitmap) CheckedRemove(x uint32) bool {
	if !rb.Contains(x) {
		return false
	}
	rb.Remove(x)
	return true
}

func clampRange(rangeStart, rangeEnd uint64) (uint64, uint64, bool) {
	if rangeStart >= rangeEnd {
		return 0, 0, false
	}
	if rangeEnd > 1<<32 {
		rangeEnd = 1 << 32
	}
	if rangeStart >= rangeEnd {
		return 0, 0, false
	}
	return rangeStart, rangeEnd, true
}

// AddRange adds the integers in [rangeStart, rangeEnd).
func (rb *Bitmap) AddRange(rangeStart, rangeEnd uint64) {
	lo, hi, ok := clampRange(rangeStart, rangeEnd)
	if !ok {
		return
	}
	for x := lo; x < hi; x++ {
		rb.Add(uint32(x))
	}
}

// RemoveRange removes the integers in [rangeStart, rangeEnd).
func (rb *Bitmap) RemoveRange(rangeStart, rangeEnd uint64) {
	lo, hi, ok := clampRange(rangeStart, rangeEnd)
	if !ok {
		return
	}
	out := rb.s[:0]
	for _, v := range rb.s {
		if uint64(v) < lo || uint64(v) >= hi {
			out = append(out, v)
		}
	}
	rb.s = out
}

// Flip negates the bits in [rangeStart, rangeEnd).
func (rb *Bitmap) Flip(rangeStart, rangeEnd uint64) {
	lo, hi, ok := clampRange(rangeStart, rangeEnd)
	if !ok {
		return
	}
	for x := lo; x < hi; x++ {
		if rb.Contains(uint32(x)) {
			rb.Remove(uint32(x))
		} else {
			rb.Add(uint32(x))
		}
	}
}

func (rb *Bitmap) FlipInt(rangeStart, rangeEnd int) { rb.Flip(uint64(rangeStart), uint64(rangeEnd)) }

func Flip(bm *Bitmap, rangeStart, rangeEnd uint64) *Bitmap {
	c := bm.Clone()
	c.Flip(rangeStart, rangeEnd)
	return c
}

func FlipInt(bm *Bitmap, rangeStart, rangeEnd int) *Bitmap {
	return Flip(bm, uint64(rangeStart), uint64(rangeEnd))
}

func AddOffset(x *Bitmap, offset uint32) *Bitmap { return AddOffset64(x, int64(offset)) }

func AddOffset64(x *Bitmap, offset int64) *Bitmap {
	out := &Bitmap{}
	for _, v := range x.s {
		n := int64(v) + offset
		if n >= 0 && n < 1<<32 {
			out.s = append(out.s, uint32(n))
		}
	}
	return out
}

func (rb *Bitmap) Xor(x2 *Bitmap) {
	var out []uint32
	for _, v := range rb.s {
		if !x2.Contains(v) {
			out = append(out, v)
		}
	}
	res := &Bitmap{s: out}
	for _, v := range x2.s {
		if !rb.Contains(v) {
			res.Add(v)
		}
	}
	rb.s = res.s
}

func Xor(x1, x2 *Bitmap) *Bitmap {
	c := x1.Clone()
	c.Xor(x2)
	return c
}

func (rb *Bitmap) Intersects(x2 *Bitmap) bool { return rb.AndCardinality(x2) > 0 }

func (rb *Bitmap) OrCardinality(x2 *Bitmap) uint64 {
	return uint64(len(rb.s)) + uint64(len(x2.s)) - rb.AndCardinality(x2)
}

func (rb *Bitmap) AndAny(bitmaps ...*Bitmap) {
	u := &Bitmap{}
	for _, b := range bitmaps {
		u.Or(b)
	}
	rb.And(u)
}

func FastOr(bitmaps ...*Bitmap) *Bitmap {
	out := &Bitmap{}
	for _, b := range bitmaps {
		out.Or(b)
	}
	return out
}

func HeapOr(bitmaps ...*Bitmap) *Bitmap                 { return FastOr(bitmaps...) }
func ParOr(parallelism int, bitmaps ...*Bitmap) *Bitmap { return FastOr(bitmaps...) }
func ParHeapOr(parallelism int, bitmaps ...*Bitmap) *Bitmap {
	return FastOr(bitmaps...)
}

func FastAnd(bitmaps ...*Bitmap) *Bitmap {
	if len(bitmaps) == 0 {
		return &Bitmap{}
	}
	out := bitmaps[0].Clone()
	for _, b := range bitmaps[1:] {
		out.And(b)
	}
	return out
}

func ParAnd(parallelism int, bitmaps ...*Bitmap) *Bitmap { return FastAnd(bitmaps...) }

func HeapXor(bitmaps ...*Bitmap) *Bitmap {
	out := &Bitmap{}
	for _, b := range bitmaps {
		out.Xor(b)
	}
	return out
}

// Rank returns the number of members <= x.
func (rb *Bitmap) Rank(x uint32) uint64 {
	n := uint64(0)
	for _, v := range rb.s {
		if v <= x {
			n++
		}
	}
	return n
}

var errSelect = errorString("can't find the requested integer")

type errorString string

func (e errorString) Error() string { return string(e) }

// Select returns the x-th member (0-based).
func (rb *Bitmap) Select(x uint32) (uint32, error) {
	if int(x) >= len(rb.s) {
		return 0, errSelect
	}
	return rb.s[x], nil
}

// Iterate calls cb for every member in ascending order until it returns false.
func (rb *Bitmap) Iterate(cb func(x uint32) bool) {
	for _, v := range rb.s {
		if !cb(v) {
			return
		}
	}
}

func (rb *Bitmap) String() string {
	var b bytes.Buffer
	b.WriteString("{")
	for i, v := range rb.s {
		if i > 0 {
			b.WriteString(",")
		}
		b.WriteString(strconv.FormatUint(uint64(v), 10))
	}
	b.WriteString("}")
	return b.String()
}

func (rb *Bitmap) HasRunCompression() bool { return rb.run }

func (rb *Bitmap) CloneCopyOnWriteContainers() {}
func (rb *Bitmap) SetCopyOnWrite(val bool)     {}
func (rb *Bitmap) GetCopyOnWrite() bool        { return false }

type reverseIterator struct {
	b   *Bitmap
	pos int
}

func (rb *Bitmap) ReverseIterator() IntIterable { return &reverseIterator{b: rb, pos: len(rb.s) - 1} }
func (ri *reverseIterator) HasNext() bool       { return ri.pos >= 0 }
func (ri *reverseIterator) Next() uint32 {
	x := ri.b.s[ri.pos]
	ri.pos--
	return x
}

type ManyIntIterable interface {
	NextMany(buf []uint32) int
}

type manyIterator struct {
	b   *Bitmap
	pos int
}

func (rb *Bitmap) ManyIterator() ManyIntIterable { return &manyIterator{b: rb} }

func (mi *manyIterator) NextMany(buf []uint32) int {
	n := copy(buf, mi.b.s[mi.pos:])
	mi.pos += n
	return n
}

func (rb *Bitmap) WriteTo(stream io.Writer) (int64, error) {
	b, _ := rb.ToBytes()
	n, err := stream.Write(b)
	return int64(n), err
}

func (rb *Bitmap) MarshalBinary() ([]byte, error) { return rb.ToBytes() }

func (rb *Bitmap) UnmarshalBinary(data []byte) error {
	_, err := rb.FromBuffer(data)
	return err
}

func (rb *Bitmap) ReadFrom(reader io.Reader, cookieHeader ...byte) (int64, error) {
	hdr := make([]byte, 8)
	copy(hdr, cookieHeader)
	if _, err := io.ReadFull(reader, hdr[len(cookieHeader):]); err != nil {
		return 0, err
	}
	if hdr[0] != 0x3B || hdr[1] != 0x30 {
		return 0, errBadBitmap
	}
	n := int(hdr[2])<<24 | int(hdr[3])<<16 | int(hdr[4])<<8 | int(hdr[5])
	body := make([]byte, 4*n)
	if _, err := io.ReadFull(reader, body); err != nil {
		return 0, err
	}
	return rb.FromBuffer(append(hdr, body...))
}
