module github.com/RoaringBitmap/roaring

go 1.16
