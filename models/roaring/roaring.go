// Package roaring is a MODEL of github.com/RoaringBitmap/roaring v0.9.4 used
// only inside the symbolic engine: a bitmap is a sorted slice of concrete
// uint32 members.  It implements the documented set semantics of the subset
// of the API that ice, bluge_segment_api and the harnesses use.  Native
// replays always run against the real library.
package roaring

import "errors"

type Bitmap struct {
	s []uint32
	// run: RunOptimize was called on this bitmap (the real library may then hold run
	// containers: HasRunCompression and the serialised bytes differ, the members do not)
	run bool
}

func New() *Bitmap       { return &Bitmap{} }
func NewBitmap() *Bitmap { return &Bitmap{} }

func BitmapOf(dat ...uint32) *Bitmap {
	b := &Bitmap{}
	for _, x := range dat {
		b.Add(x)
	}
	return b
}

func (rb *Bitmap) find(x uint32) (int, bool) {
	for i, v := range rb.s {
		if v == x {
			return i, true
		}
		if v > x {
			return i, false
		}
	}
	return len(rb.s), false
}

func (rb *Bitmap) Add(x uint32) {
	i, ok := rb.find(x)
	if ok {
		return
	}
	rb.s = append(rb.s, 0)
	copy(rb.s[i+1:], rb.s[i:])
	rb.s[i] = x
}

func (rb *Bitmap) AddMany(dat []uint32) {
	for _, x := range dat {
		rb.Add(x)
	}
}

func (rb *Bitmap) Remove(x uint32) {
	i, ok := rb.find(x)
	if ok {
		rb.s = append(rb.s[:i], rb.s[i+1:]...)
	}
}

func (rb *Bitmap) Contains(x uint32) bool {
	_, ok := rb.find(x)
	return ok
}

func (rb *Bitmap) GetCardinality() uint64 { return uint64(len(rb.s)) }
func (rb *Bitmap) IsEmpty() bool          { return len(rb.s) == 0 }
func (rb *Bitmap) Clear()                 { rb.s = rb.s[:0] }

// Minimum assumes a non-empty bitmap (the real one panics otherwise, too).
func (rb *Bitmap) Minimum() uint32 { return rb.s[0] }
func (rb *Bitmap) Maximum() uint32 { return rb.s[len(rb.s)-1] }

func (rb *Bitmap) Or(x2 *Bitmap) {
	for _, v := range x2.s {
		rb.Add(v)
	}
}

func (rb *Bitmap) And(x2 *Bitmap) {
	var out []uint32
	for _, v := range rb.s {
		if x2.Contains(v) {
			out = append(out, v)
		}
	}
	rb.s = out
}

func (rb *Bitmap) AndNot(x2 *Bitmap) {
	var out []uint32
	for _, v := range rb.s {
		if !x2.Contains(v) {
			out = append(out, v)
		}
	}
	rb.s = out
}

func (rb *Bitmap) AndCardinality(x2 *Bitmap) uint64 {
	var n uint64
	for _, v := range rb.s {
		if x2.Contains(v) {
			n++
		}
	}
	return n
}

func AndNot(x1, x2 *Bitmap) *Bitmap {
	out := &Bitmap{}
	for _, v := range x1.s {
		if !x2.Contains(v) {
			out.s = append(out.s, v)
		}
	}
	return out
}

func And(x1, x2 *Bitmap) *Bitmap {
	out := &Bitmap{}
	for _, v := range x1.s {
		if x2.Contains(v) {
			out.s = append(out.s, v)
		}
	}
	return out
}

func Or(x1, x2 *Bitmap) *Bitmap {
	out := x1.Clone()
	out.Or(x2)
	return out
}

func (rb *Bitmap) Clone() *Bitmap {
	return &Bitmap{s: append([]uint32(nil), rb.s...), run: rb.run}
}

func (rb *Bitmap) ToArray() []uint32 {
	return append(make([]uint32, 0, len(rb.s)), rb.s...)
}

func (rb *Bitmap) Equals(o interface{}) bool {
	x, ok := o.(*Bitmap)
	if !ok || len(x.s) != len(rb.s) {
		return false
	}
	for i := range rb.s {
		if rb.s[i] != x.s[i] {
			return false
		}
	}
	return true
}

// RunOptimize only changes the representation of the real bitmap; the model records
// that it happened (observable through HasRunCompression only).
func (rb *Bitmap) RunOptimize() { rb.run = true }

func (rb *Bitmap) GetSizeInBytes() uint64 { return 8 + 4*uint64(len(rb.s)) }

func (rb *Bitmap) GetSerializedSizeInBytes() uint64 { return 8 + 4*uint64(len(rb.s)) }

// Serialised form of the model: cookie 0x3B 0x30, 4-byte big-endian
// cardinality, 2 reserved bytes, then 4 bytes per member.  The length depends
// on the cardinality, as with the real format.
func (rb *Bitmap) ToBytes() ([]byte, error) {
	n := len(rb.s)
	out := make([]byte, 0, 8+4*n)
	out = append(out, 0x3B, 0x30, byte(n>>24), byte(n>>16), byte(n>>8), byte(n), 0, 0)
	for _, v := range rb.s {
		out = append(out, byte(v>>24), byte(v>>16), byte(v>>8), byte(v))
	}
	return out, nil
}

var errBadBitmap = errors.New("roaring model: invalid serialized bitmap")

func (rb *Bitmap) FromBuffer(buf []byte) (int64, error) {
	if len(buf) < 8 || buf[0] != 0x3B || buf[1] != 0x30 {
		return 0, errBadBitmap
	}
	n := int(buf[2])<<24 | int(buf[3])<<16 | int(buf[4])<<8 | int(buf[5])
	if len(buf) < 8+4*n {
		return 0, errBadBitmap
	}
	rb.s = rb.s[:0]
	for i := 0; i < n; i++ {
		p := buf[8+4*i:]
		rb.s = append(rb.s, uint32(p[0])<<24|uint32(p[1])<<16|uint32(p[2])<<8|uint32(p[3]))
	}
	return int64(8 + 4*n), nil
}

type IntIterable interface {
	HasNext() bool
	Next() uint32
}

type IntPeekable interface {
	IntIterable
	PeekNext() uint32
	AdvanceIfNeeded(minval uint32)
}

type intIterator struct {
	b   *Bitmap
	pos int
}

func (rb *Bitmap) Iterator() IntPeekable { return &intIterator{b: rb} }

func (ii *intIterator) HasNext() bool { return ii.pos < len(ii.b.s) }

// Next past the end panics (index out of range), like the real iterator.
func (ii *intIterator) Next() uint32 {
	x := ii.b.s[ii.pos]
	ii.pos++
	return x
}

func (ii *intIterator) PeekNext() uint32 { return ii.b.s[ii.pos] }

func (ii *intIterator) AdvanceIfNeeded(minval uint32) {
	for ii.pos < len(ii.b.s) && ii.b.s[ii.pos] < minval {
		ii.pos++
	}
}
