module github.com/klauspost/compress

go 1.16
