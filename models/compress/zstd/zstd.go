// Package zstd is a MODEL of github.com/klauspost/compress/zstd v1.15.2 used
// only inside the symbolic engine.  EncodeAll frames the input with a 3-byte
// header (magic, length check) and copies it; DecodeAll validates the header
// and copies back.  Empty input <-> empty output, as in the real codec (no
// zero frames).  The capacity rule of DecodeAll mirrors decoder.go of
// v1.15.2: the destination is reused when it has room for the frame content
// size, otherwise a buffer of len+content+16 bytes is allocated.
package zstd

import "errors"

type EncoderLevel int

const (
	SpeedFastest EncoderLevel = iota + 1
	SpeedDefault
	SpeedBetterCompression
	SpeedBestCompression
)

func EncoderLevelFromZstd(level int) EncoderLevel {
	switch {
	case level < 3:
		return SpeedFastest
	case level >= 3 && level < 6:
		return SpeedDefault
	case level >= 6 && level < 10:
		return SpeedBetterCompression
	default:
		return SpeedBestCompression
	}
}

type EOption func(*Encoder) error
type DOption func(*Decoder) error

func WithEncoderLevel(l EncoderLevel) EOption {
	return func(e *Encoder) error { e.level = l; return nil }
}

type Encoder struct{ level EncoderLevel }
type Decoder struct{}

type reader interface{ Read(p []byte) (int, error) }
type writer interface{ Write(p []byte) (int, error) }

func NewWriter(w writer, opts ...EOption) (*Encoder, error) {
	e := &Encoder{level: SpeedDefault}
	for _, o := range opts {
		if err := o(e); err != nil {
			return nil, err
		}
	}
	return e, nil
}

func NewReader(r reader, opts ...DOption) (*Decoder, error) { return &Decoder{}, nil }

const (
	magic0 = 0x28
	magic1 = 0xB5
)

func (e *Encoder) EncodeAll(src, dst []byte) []byte {
	if len(src) == 0 {
		return dst
	}
	dst = append(dst, magic0, magic1, byte(len(src)%251))
	return append(dst, src...)
}

var ErrMagicMismatch = errors.New("zstd model: invalid input: magic number mismatch")
var errCorrupt = errors.New("zstd model: corrupt input")

const compressedBlockOverAlloc = 16

func (d *Decoder) DecodeAll(input, dst []byte) ([]byte, error) {
	if len(input) == 0 {
		return dst, nil
	}
	if len(input) < 4 || input[0] != magic0 || input[1] != magic1 {
		return dst, ErrMagicMismatch
	}
	n := len(input) - 3
	if input[2] != byte(n%251) {
		return dst, errCorrupt
	}
	if cap(dst)-len(dst) < n {
		dst2 := make([]byte, len(dst), len(dst)+n+compressedBlockOverAlloc)
		copy(dst2, dst)
		dst = dst2
	}
	return append(dst, input[3:]...), nil
}
